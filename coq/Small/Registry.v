(* Design spike for C10 (last clause) / C15 (history): the identity-keyed context registry
   `_CONTEXTS : id(expr) -> (weakref(expr), context)` never serves a context to another object. *)
From Coq Require Import List Arith Bool Lia.
Import ListNotations.

Section Registry.
  Variable ctx : Type.
  (* an object has a unique identity [oid] and lives at an address; addresses are reused after death *)
  Variable addr : nat -> nat.                       (* address of the object with identity oid *)

  Definition reg := nat -> option (nat * ctx).      (* address -> (identity the weakref points to, context) *)
  Definition upd {A} (m : nat -> A) (k : nat) (v : A) : nat -> A := fun x => if x =? k then v else m x.

  Inductive op :=
  | Store (o : nat) (c : ctx)          (* _store_context / set_resolution_context / attach_… *)
  | Clear (o : nat)                    (* clear_resolution_context *)
  | Get (o : nat)                      (* _get_context, which also pops a stale entry *)
  | Die (o : nat) (callback : bool).   (* the object is freed; its weakref callback may or may not run *)

  (* ghost: the last context stored for this very object and not cleared since *)
  Definition ghost := nat -> option ctx.
  Record state := { r : reg; g : ghost }.

  Definition get (s : state) (o : nat) : option ctx :=
    match r s (addr o) with
    | Some (o', c) => if o' =? o then Some c else None      (* stored_ref() is expr *)
    | None => None
    end.

  Definition step (s : state) (x : op) : state :=
    match x with
    | Store o c => {| r := upd (r s) (addr o) (Some (o, c)); g := upd (g s) o (Some c) |}
    | Clear o => {| r := upd (r s) (addr o) None; g := upd (g s) o None |}
    | Get o =>
        match r s (addr o) with
        | Some (o', _) => if o' =? o then s else {| r := upd (r s) (addr o) None; g := g s |}
        | None => s
        end
    | Die o cb =>
        if cb then
          match r s (addr o) with
          | Some (o', _) => if o' =? o then {| r := upd (r s) (addr o) None; g := upd (g s) o None |}
                            else {| r := r s; g := upd (g s) o None |}
          | None => {| r := r s; g := upd (g s) o None |}
          end
        else {| r := r s; g := upd (g s) o None |}
    end.

  Definition init : state := {| r := fun _ => None; g := fun _ => None |}.

  (* a history is admissible when nothing is stored for, or asked of, an object after it died *)
  Fixpoint alive_ok (dead : list nat) (h : list op) : Prop :=
    match h with
    | [] => True
    | Store o _ :: t | Clear o :: t | Get o :: t => ~ In o dead /\ alive_ok dead t
    | Die o _ :: t => ~ In o dead /\ alive_ok (o :: dead) t
    end.

  (* invariant: every entry carries the last context stored for the identity it names,
     unless that object is dead (then the entry is stale and can never match a live object) *)
  Definition Inv (dead : list nat) (s : state) : Prop :=
    forall a o c, r s a = Some (o, c) -> a = addr o /\ (In o dead \/ g s o = Some c).

  Lemma upd_eq {A} (m : nat -> A) k v : upd m k v k = v.
  Proof. unfold upd. now rewrite Nat.eqb_refl. Qed.
  Lemma upd_neq {A} (m : nat -> A) k v x : x <> k -> upd m k v x = m x.
  Proof. unfold upd. intros H. apply Nat.eqb_neq in H. now rewrite H. Qed.

  Lemma step_inv dead s x :
    Inv dead s ->
    match x with Store o _ | Clear o | Get o | Die o _ => ~ In o dead end ->
    Inv (match x with Die o _ => o :: dead | _ => dead end) (step s x).
  Proof.
    intros HI Hal. destruct x as [o c|o|o|o cb]; unfold Inv in *; cbn [step r g].
    - intros a o' c' H. destruct (Nat.eq_dec a (addr o)) as [->|Hn].
      + rewrite upd_eq in H. inversion H; subst. split; [reflexivity|]. right. apply upd_eq.
      + rewrite upd_neq in H by exact Hn. destruct (HI a o' c' H) as [Ha Hg]. split; [exact Ha|].
        destruct Hg as [Hd|Hg]; [left; exact Hd|]. right.
        rewrite upd_neq; [exact Hg|]. intros ->. congruence.
    - intros a o' c' H. destruct (Nat.eq_dec a (addr o)) as [->|Hn].
      + rewrite upd_eq in H. discriminate.
      + rewrite upd_neq in H by exact Hn. destruct (HI a o' c' H) as [Ha Hg]. split; [exact Ha|].
        destruct Hg as [Hd|Hg]; [left; exact Hd|]. right.
        rewrite upd_neq; [exact Hg|]. intros ->. congruence.
    - destruct (r s (addr o)) as [[o1 c1]|] eqn:E; [|exact HI].
      destruct (o1 =? o); [exact HI|]. cbn [r g]. intros a o' c' H.
      destruct (Nat.eq_dec a (addr o)) as [->|Hn].
      + rewrite upd_eq in H. discriminate.
      + rewrite upd_neq in H by exact Hn. exact (HI a o' c' H).
    - assert (Hgen : forall r', (forall a o' c', r' a = Some (o', c') -> r s a = Some (o', c')) ->
                      forall a o' c', r' a = Some (o', c') -> a = addr o' /\ (In o' (o :: dead) \/ upd (g s) o None o' = Some c')).
      { intros r' Hsub a o' c' H. destruct (HI a o' c' (Hsub _ _ _ H)) as [Ha Hg]. split; [exact Ha|].
        destruct (Nat.eq_dec o' o) as [->|Hn]; [left; left; reflexivity|].
        destruct Hg as [Hd|Hg]; [left; right; exact Hd|]. right. rewrite upd_neq by exact Hn. exact Hg. }
      destruct cb.
      + destruct (r s (addr o)) as [[o1 c1]|] eqn:E.
        * destruct (o1 =? o); cbn [r g]; apply Hgen; intros a o' c' H; [|exact H].
          destruct (Nat.eq_dec a (addr o)) as [->|Hn]; [rewrite upd_eq in H; discriminate|].
          rewrite upd_neq in H by exact Hn. exact H.
        * cbn [r g]. apply Hgen. auto.
      + cbn [r g]. apply Hgen. auto.
  Qed.

  (* run a history *)
  Fixpoint run (s : state) (h : list op) : state := match h with [] => s | x :: t => run (step s x) t end.

  Fixpoint deads (h : list op) : list nat :=
    match h with [] => [] | Die o _ :: t => o :: deads t | _ :: t => deads t end.

  Lemma run_inv : forall h dead s, Inv dead s -> alive_ok dead h ->
    exists dead', Inv dead' (run s h) /\ (forall o, In o dead' -> In o dead \/ In o (deads h)).
  Proof.
    induction h as [|x t IH]; intros dead s HI Hal; [exists dead; auto|].
    cbn [run]. destruct x as [o c|o|o|o cb]; cbn [alive_ok] in Hal; destruct Hal as [Hl Ht]; cbn [deads].
    - apply (IH dead); [apply (step_inv dead s (Store o c) HI Hl)|exact Ht].
    - apply (IH dead); [apply (step_inv dead s (Clear o) HI Hl)|exact Ht].
    - apply (IH dead); [apply (step_inv dead s (Get o) HI Hl)|exact Ht].
    - destruct (IH (o :: dead) (step s (Die o cb)) (step_inv dead s (Die o cb) HI Hl) Ht) as [d' [H1 H2]].
      exists d'. split; [exact H1|]. intros o' Ho'. destruct (H2 o' Ho') as [[->|Hd]|Hd]; cbn [In]; auto.
  Qed.

  (* THE PROPERTY: after any admissible history, a lookup for an object that has not died returns a
     context only if it is the last one stored for that very object and not cleared since. *)
  Theorem registry_sound h o c :
    alive_ok [] h -> ~ In o (deads h) ->
    get (run init h) o = Some c -> g (run init h) o = Some c.
  Proof.
    intros Hal Hlive Hget.
    destruct (run_inv h [] init) as [dead' [HI Hsub]]; [intros a o' c' H; discriminate|exact Hal|].
    unfold get in Hget. destruct (r (run init h) (addr o)) as [[o1 c1]|] eqn:E; [|discriminate].
    destruct (o1 =? o) eqn:Eo; [|discriminate]. apply Nat.eqb_eq in Eo. subst o1. inversion Hget; subst c1.
    destruct (HI _ _ _ E) as [_ [Hd|Hg]]; [|exact Hg].
    destruct (Hsub o Hd) as [[]|Hd']. contradiction.
  Qed.
End Registry.
Print Assumptions registry_sound.

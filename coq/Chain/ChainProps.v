(* F-26 inside the model: the chain stored for a value grows on every traversal of a `rec` set under `let` layers. *)
From Coq Require Import List Ascii String Arith Bool. Import ListNotations.
From C Require Import ChainModel.
Open Scope string_scope.
Definition s (x : string) : str := list_ascii_of_string x.
(* let b = d; in let d = 90; in rec { d = b; }   — set 0; values: b ↦ ref 1, d(let) ↦ int 2, d(set) ↦ ref 3 *)
Definition t26 : table :=
  [(0, {| s_rec := true; s_layers := [[(s "b", RRef 1 (s "d"))]; [(s "d", RInt 2 90)]]; s_vals := [(s "d", RRef 3 (s "b"))] |})].
Fixpoint repeat_access (k : nat) (r : registry) : registry * list outcome :=
  match k with O => (r, []) | S k' => let '(r1, o) := access t26 0 r [s "d"] in let '(r2, os) := repeat_access k' r1 in (r2, o :: os) end.
Definition stored_len (k : nat) : option nat := option_map (@List.length sref) (rget (fst (repeat_access k [])) 3).
Example F26_chain_grows :
  map stored_len [1; 2; 3; 4] = [Some 5; Some 9; Some 13; Some 17] /\ snd (repeat_access 3 []) = [OInt 90; OInt 90; OInt 90].
Proof. split; vm_compute; reflexivity. Qed.

(* sets that are not recursive never store a context for themselves *)
Lemma nonrec_owner_no_store t r sid si : tget t sid = Some si -> s_rec si = false -> fst (scopes_for_owner t r sid) = r.
Proof. intros H1 H2. unfold scopes_for_owner. rewrite H1, H2. reflexivity. Qed.

(* the registry is write-only for the lookup itself: the answer of _resolve_identifier depends on the chain it is
   given, never on what is stored (so history can influence an answer only through the chain an access builds) *)
Lemma resolve_reg_irrelevant : forall fuel t r r' name scopes vis,
  snd (resolve fuel t r name scopes vis) = snd (resolve fuel t r' name scopes vis).
Proof.
  induction fuel as [|f IH]; intros t r r' name scopes vis; [reflexivity|]. cbn [resolve].
  match goal with |- snd (?scan1 ?P) = snd (?scan2 ?P) => generalize P end.
  intros prefixes. induction prefixes as [|[sc ch] more IHp]; [reflexivity|].
  destruct (find_name (scope_items t sc) name 0) as [[pos bv]|]; [|exact IHp].
  destruct (bid_mem sc pos vis); [reflexivity|].
  destruct bv as [i n|i n2|i]; [reflexivity|apply IH|reflexivity].
Qed.
Print Assumptions resolve_reg_irrelevant.

"""C10 / C11 search (labelled test): a reference resolver implementing Nix's lexical scoping is compared with
Identifier.value (C10) and with the binding that `set` rewrites (C11) on generated nestings inside the believed-good
domain: 0-3 let layers around nested plain sets (rec only without an enclosing let), references into let layers,
shadowing at several levels, reference chains, cycles and unbound names.  No `with`, no `inherit`, no let-as-value
(findings F-09, F-10, F-25, F-26 live there).   usage: resolve_search.py PROP SEED N"""
import json, random, re, sys
from nix_manipulator import parse
from nix_manipulator.expressions import Identifier
from nix_manipulator.exceptions import ResolutionError
from nix_manipulator.cli.manipulations import set_value
prop, seed, N = sys.argv[1], int(sys.argv[2]), int(sys.argv[3])
reported_as = prop
if prop in ('C05', 'C04'): prop = 'C11'        # C05 run: the same edits through references, judged as "exactly the requested change" (another binding must not be rewritten)
R = random.Random(seed * 17 + sum(map(ord, prop)))
NAMES = ['a', 'b', 'c', 'd']
viol, dist, samples = [], {}, []
def count(k): dist[k] = dist.get(k, 0) + 1
def gen_bindings(depth, setdepth):
    out = []; used = set()
    for _ in range(R.randrange(1, 4)):
        k = R.choice(NAMES)
        if k in used: continue
        used.add(k); out.append((k, gen_val(depth, setdepth)))
    return out
def gen_val(depth, setdepth):
    r = R.random()
    if r < 0.35: return ('int', R.randrange(10, 99))
    if r < 0.8 or setdepth <= 0: return ('ref', 'e' if R.random() < 0.08 else R.choice(NAMES))
    return ('set', False, gen_bindings(depth, setdepth - 1))
def gen_doc():
    nl = R.choice([0, 1, 1, 2, 2, 3])
    body = ('set', nl == 0 and R.random() < 0.4, gen_bindings(2, 2))
    prev = None
    for _ in range(nl):
        bs = list(prev) if prev is not None and R.random() < 0.3 else gen_bindings(1, 0)        # sometimes the same names and values as the layer inside
        body = ('let', bs, body); prev = bs
    return body
def show(e):
    t = e[0]
    if t == 'int': return str(e[1])
    if t == 'ref': return e[1]
    if t == 'set': return ('rec ' if e[1] else '') + '{ ' + ' '.join('%s = %s;' % (k, show(v)) for k, v in e[2]) + ' }'
    return 'let ' + ' '.join('%s = %s;' % (k, show(v)) for k, v in e[1]) + ' in ' + show(e[2])
class Unbound(Exception): pass
class Cycle(Exception): pass
def lookup(name, env):
    for fr in env:
        if name in fr: return fr[name]
    raise Unbound(name)
def set_frame(e, env):
    d = {}; inner = [d] + env if e[1] else env
    for k, v in e[2]: d[k] = (v, inner, ('bind', id(e), k))
    return d
def whnf(e, env, seen, trail):
    """follow identifier chains to a non-reference expression; trail collects the defining bindings passed through"""
    while True:
        if e[0] == 'ref':
            key = (id(e), tuple(id(f) for f in env))
            if key in seen: raise Cycle()
            seen.add(key); e, env, where = lookup(e[1], env); trail.append(where); continue
        if e[0] == 'let':
            d = {}; env2 = [d] + env
            for k, v in e[1]: d[k] = (v, env2, ('let', id(e), k))
            e, env = e[2], env2; continue
        return e, env
# ---- moved references (third round of seeds): an identifier fetched from one place — possibly already resolved there —
# and assigned under an existing or a new key elsewhere must resolve by the scoping of its NEW position (exhaustive small family)
if prop == 'C10':
    import itertools
    SRC_A = ['rec { v = 1; ref = v; }', 'let v = 1; in { ref = v; }', 'let v = 1; in rec { w = 5; ref = v; }']
    DST_B = [('{ v = 2; ref = 0; }', (), 'RESERR'), ('let v = 2; in { ref = 0; }', (), '2'), ('rec { v = 2; ref = 0; }', (), '2'),
             ('{ inner = { ref = 0; }; v = 2; }', ('inner',), 'RESERR'), ('let v = 2; in { inner = { ref = 0; }; }', ('inner',), '2'), ('{ ref = 0; }', (), 'RESERR')]
    def res(x):
        try:
            v = x.value; g = v.rebuild().strip() if hasattr(v, 'rebuild') else repr(v); return g if g.isdigit() else '<other>'
        except ResolutionError: return 'RESERR'
        except Exception as ex: return 'EXC:' + type(ex).__name__
    for A, (B, inner, exp), key, pre in itertools.product(SRC_A, DST_B, ['ref', 'nw'], [True, False]):
        count('moved-reference/' + ('existing-key' if key == 'ref' else 'new-key'))
        try:
            a = parse(A); m = a['ref']
            if pre: m.value
            b = parse(B); tgt = b
            for k in inner: tgt = tgt[k]
            tgt[key] = m; got = res(tgt[key])
        except Exception as ex: got = 'EXC:' + type(ex).__name__
        if got != exp: viol.append({'doc': B, 'moved_from': A, 'key': list(inner) + [key], 'resolved_before_move': pre, 'what': 'a reference moved into another document resolves to %s; the scoping of its new position gives %s' % (got, exp)})
    # the same inside one document: a reference moved from a rec set into a plain sibling
    for key, pre in itertools.product(['ref', 'nw'], [True, False]):
        count('moved-reference/sibling')
        d = parse('{ left = rec { val = 1; ref = val; }; right = { val = 2; ref = 0; }; }')
        m = d['left']['ref']
        if pre: m.value
        d['right'][key] = m; got = res(d['right'][key])
        if got != 'RESERR': viol.append({'doc': d.rebuild(), 'key': ['right', key], 'resolved_before_move': pre, 'what': 'a reference moved into a plain sibling set resolves to %s (taken from the rec set it came from); nothing binds the name there' % got})
# ---- twelfth round: a composite value reached THROUGH a reference keeps the scoping of the place it is written in; the names inside it are looked up
# there, never in the scopes of the reference that led to it (expected values by Nix's lexical rule, written out by hand)
if prop == 'C10':
    THROUGH = [('let v = 1; s = { k = v; }; in let v = 2; in { x = s; y = v; }', ['x', 'k'], '1'), ('let v = 1; s = { k = v; }; in let v = 2; in { x = s; y = v; }', ['y'], '2'),
               ('let v = 1; s = rec { k = v; j = k; }; t = s; in let v = 2; in { x = t; }', ['x', 'j'], '1'), ('let v = 1; s = rec { k = v; j = k; }; t = s; in let v = 2; in { x = t; }', ['x', 'k'], '1'),
               ('let v = 1; s = { k = v; }; in { x = s; }', ['x', 'k'], '1'), ('let s = { k = v; }; v = 1; in let v = 2; in { x = s; }', ['x', 'k'], '1'),
               ('let v = 1; in let s = { k = { m = v; }; }; in let v = 2; in { x = s; }', ['x', 'k', 'm'], '1'), ('let v = 1; s = { k = v; }; in let v = 2; t = s; in let v = 3; in { x = t; }', ['x', 'k'], '1'),
               ('let v = 1; s = { k = v; }; in let v = 2; in rec { x = s; v = 4; }', ['x', 'k'], '1')]
    for src_, keys, want in THROUGH:
        for warm in (False, True):
            count('lookup-through-reference')
            try:
                node = parse(src_ + '\n')
                if warm: parse(src_ + '\n')[keys[0]].value          # the same lookups on another object first: nothing may be remembered
                for i_, k_ in enumerate(keys):
                    node = node[k_]
                    while isinstance(node, Identifier): node = node.value
                got = node.rebuild().strip()
            except ResolutionError: got = 'RESERR'
            except Exception as ex: got = 'EXC:' + type(ex).__name__
            if got != want: viol.append({'doc': src_, 'path': keys, 'what': 'a name inside a set reached through a reference: Nix gives %s, resolution gives %s' % (want, got)})
# ---- editing through references into inherit clauses and with environments (coverage probe: these branches were never executed):
# `set x V` rewrites the binding at the end of the chain — the attribute of the inherited source, the with environment that
# supplies the name (the innermost one), the let binding an alias chain ends in — and nothing else
if prop == 'C11':
    TEMPLATES = ['let s = { a = V; }; in let inherit (s) a; in { x = a; }', 'let a = V; in { inherit a; x = a; }', 'let s = { a = V; }; in rec { inherit (s) a; x = a; }',
                 'with { a = V; }; { x = a; }', 'with { a = V; }; with { b = 1; }; { x = a; }', 'with { a = 1; }; with { a = V; }; { x = a; }', 'let e = { a = V; }; in with e; { x = a; }',
                 'let s = { a = r; }; r = V; in let inherit (s) a; in { x = a; }', 'let a = V; in let b = a; in { x = b; }', 'let s = { a = V; b = 2; }; in let inherit (s) a b; in { x = a; y = b; }',
                 '{ pkgs }: let s = { a = V; }; in let inherit (s) a; in { x = a; }', 'let a = V; in mk { x = a; }', 'let a = V; in assert c; { x = a; }', '{ pkgs }: let a = V; in { x = a; }',
                 # seventh round: a sibling attribute spelled like the let binding — in a non-recursive set the reference still means the let binding
                 'let a = V; in mk { x = a; a = 2; }', 'let a = V; in { x = a; a = 2; }', 'let a = 1; in rec { x = a; a = V; }', 'let a = V; in assert c; { x = a; a = 2; }',
                 'let a = V; in mk (f { x = a; a = 2; })', 'let a = V; in { y = 0; x = a; /* c */ a = 2; }',
                 # eighth round: the edited set is reached through a name, and an inner let shadows what its bindings refer to — references are
                 # resolved where the set is DEFINED, not where it is used
                 'let a = V; cfg = { x = a; }; in let a = 2; in cfg', 'let a = V; cfg = { x = a; }; in let a = 2; in mk cfg',
                 'let a = V; b = a; cfg = { x = b; }; in let a = 2; b = 3; in let c2 = cfg; in c2', 'let a = V; in let cfg = { x = a; }; in let a = 2; in cfg']
    # listed (F-46): a call/assert wrapper between the let and the set under a lambda head, or with an inherited name — overwritten instead of redirected
    for tpl in TEMPLATES:
        # twelfth round: old and new values that Python's == equates and Nix does not (1 / true, 0 / false, 1 / 1.0): a `skip when unchanged` shortcut drops the edit
        for old, new in [('5', '9'), ('"o"', '"n"'), ('[ 1 ]', '{ k = 1; }'), ('1', 'true'), ('0', 'false'), ('true', '1'), ('1', '1.0'), ('false', '0')]:
            src = tpl.replace('V', old); want = tpl.replace('V', new); count('reference-templates')
            try: got = ' '.join(set_value(parse(src + '\n'), 'x', new).split())
            except Exception as ex: got = 'EXC:' + type(ex).__name__
            if got != want: viol.append({'doc': src, 'path': ['x'], 'what': 'set through a reference (inherit / with / alias chain) rewrote the wrong binding', 'got': got, 'expected': want})
            # the same edit through the mapping API: document-level item access, then assignment through the identifier
            if old in ('1', '0') and new in ('true', 'false') and 'mk ' not in tpl and 'assert c;' not in tpl:
                count('reference-templates/api')
                try:
                    d_ = parse(src + '\n'); d_['x'].value = (new == 'true'); got2 = ' '.join(d_.rebuild().split())
                except Exception as ex: got2 = 'EXC:' + type(ex).__name__
                if got2 != want: viol.append({'doc': src, 'path': ['x'], 'what': 'assignment of a boolean through the identifier fetched with doc[key] did not rewrite the defining binding', 'got': got2, 'expected': want})
            if old == '5' and 'mk ' not in tpl and 'assert c;' not in tpl:        # behind a call / assert wrapper item access cannot see the let (explicit ResolutionError; the wrapper gap of F-27 / F-46)
                count('reference-templates/api')
                try:
                    d_ = parse(src + '\n'); d_['x'].value = 9; got2 = ' '.join(d_.rebuild().split())
                except Exception as ex: got2 = 'EXC:' + type(ex).__name__
                if got2 != want: viol.append({'doc': src, 'path': ['x'], 'what': 'assignment through the identifier fetched with doc[key] rewrote the wrong binding', 'got': got2, 'expected': want})
# ---- an inherit inside a call argument (tenth round): the defining binding is the one Nix's scoping names — the enclosing rec set's, not a let binding it shadows
if prop == 'C11':
    for tpl, pth in [('let version = "0.9"; in mk rec { pname = "demo"; version = V; src = fetch { inherit pname version; hash = ""; }; }', 'src.version'),
                     ('let version = V; in mk { pname = "demo"; src = fetch { inherit pname version; }; }', 'src.version'),
                     ('let pname = "p"; in mk rec { pname = V; version = "1"; src = fetch { inherit pname version; }; }', 'src.pname')]:
        for old_, new_ in [('"1.0"', '"2.0"'), ('7', '8')]:
            src_ = tpl.replace('V', old_); want = tpl.replace('V', new_); count('inherit-in-call-argument')
            try: got = ' '.join(set_value(parse(src_ + '\n'), pth, new_).split())
            except Exception as ex: got = 'EXC:' + type(ex).__name__
            if got != want: viol.append({'doc': src_, 'path': pth.split('.'), 'what': 'set through an inherit inside a call argument rewrote the wrong binding', 'got': got, 'expected': want})
# ---- thirteenth round: the reference sits in an explicit NESTED set reached by a path of several segments — it is resolved in the scope of that
# nested set (its own rec bindings shadow an outer let of the same name; a chain inside it is followed to its end)
if prop == 'C11':
    for tpl, pth in [('let v = "1"; in { a = rec { x = v; v = V; }; }', 'a.x'), ('{ a = rec { x = v; v = w; w = V; }; }', 'a.x'), ('let v = "0"; in { a = { b = rec { x = v; v = V; }; }; }', 'a.b.x'),
                     ('let v = V; in { a = { x = v; }; }', 'a.x'), ('let v = "1"; in { a = rec { x = v; v = V; c.d = 1; }; }', 'a.x'), ('let v = V; in { a = { b = { x = v; }; k = 1; }; }', 'a.b.x'),
                     ('{ pkgs }: let v = "1"; in mk { a = rec { x = v; v = V; }; }', 'a.x'), ('let w = V; in { a = rec { x = v; v = w; }; }', 'a.x')]:
        for old_, new_ in [('"2"', '"NEW"'), ('7', '8')]:
            src_ = tpl.replace('V', old_); want = tpl.replace('V', new_); count('reference-in-nested-set')
            try: got = ' '.join(set_value(parse(src_ + '\n'), pth, new_).split())
            except Exception as ex: got = 'EXC:' + type(ex).__name__
            if got != want and tpl.startswith('let w = V; in { a = rec { x = v; v = w;') and got == src_.replace('v = w;', 'v = %s;' % new_):
                count('listed/F-63'); continue        # listed: a chain that leaves the nested rec set for the enclosing let is cut at its middle link (exactly this outcome; any other is reported)
            if got != want: viol.append({'doc': src_, 'path': pth.split('.'), 'what': 'set through a reference inside an explicit nested set rewrote the wrong binding', 'got': got, 'expected': want})
# ---- sequences of edits through references on ONE document object (third round of seeds): every step must have the effect
# it has on a fresh parse of the text the previous step printed — the defining binding is looked up anew each time
if prop == 'C11':
    from nix_manipulator.cli.manipulations import remove_value
    def ap(src, op):
        try:
            if op[0] == 'set': return ('ok', set_value(src, op[1], op[2]))
            if op[0] == 'rm': return ('ok', remove_value(src, op[1]))
            # the same edits through the mapping API (item access attaches the resolution context)
            if op[0] == 'api_through':
                x = src[op[1]]
                if not isinstance(x, Identifier): return ('err', 'NotAReference')
                x.value = int(op[2]) if op[2].isdigit() else op[2]
            elif op[0] == 'api_read':
                x = src[op[1]]
                if isinstance(x, Identifier):
                    try: x.value
                    except ResolutionError: pass
            elif op[0] == 'api_assign': src[op[1]] = int(op[2])
            elif op[0] == 'api_del': del src[op[1]]
            return ('ok', src.rebuild())
        except Exception as ex: return ('err', type(ex).__name__)
    for it in range(N // 2):
        doc = gen_doc(); text = show(doc) + '\n'
        if doc[0] == 'let' and R.random() < 0.5:       # rec body under let layers: a new member shadows the let binding
            body = doc
            while body[0] == 'let': body = body[2]
            text = text.replace(show(body), 'rec ' + show(body) if not body[1] else show(body), 1)
        try: obj = parse(text)
        except Exception: continue
        cur = text; ops = []
        # directed scenario (half of the documents): touch a reference, change which binding defines its name, edit through it again
        script = []
        refs = re.findall(r"([a-e]) = ([a-e]);", cur[cur.rfind('{'):]) if cur.count('{') == 1 else []
        if refs and R.random() < 0.5:
            k, n_ = R.choice(refs); val = lambda: str(R.randrange(100, 999))
            script = [R.choice([('api_read', k), ('api_through', k, val()), ('set', k, val())]),
                      R.choice([('api_assign', n_, val()), ('set', n_, val()), ('api_del', n_), ('rm', n_)]),
                      R.choice([('api_through', k, val()), ('set', k, val())])]
        for step in range(len(script) or R.randint(2, 4)):
            keys = re.findall(r"([a-e]) =", cur)
            r = R.random() if not script else 2.0
            body_keys = re.findall(r"([a-e]) =", cur[cur.rfind('{'):]) if '{' in cur else []
            if r < 0.3 and body_keys and cur.count('{') == 1:          # mapping-API variants on the (single, un-nested) body set
                k = R.choice(body_keys); op = R.choice([('api_through', k, str(R.randrange(100, 999))), ('api_read', k), ('api_assign', R.choice(NAMES), str(R.randrange(100, 999))), ('api_del', k)])
            elif script: op = script[step]
            elif r < 0.6 and keys: op = ('set', R.choice(keys), str(R.randrange(100, 999)))
            elif r < 0.8: op = ('set', R.choice(NAMES), R.choice([str(R.randrange(100, 999)), R.choice(NAMES)]))      # may create a shadowing binding or a new reference
            elif keys: op = ('rm', R.choice(keys))
            else: continue
            ops.append(list(op)); count('sequence/' + op[0])
            try: fresh = ap(parse(cur), op)
            except Exception: break
            same = ap(obj, op)
            if same[0] != fresh[0] or (same[0] == 'ok' and ' '.join(same[1].split()) != ' '.join(fresh[1].split())):
                viol.append({'doc': text, 'ops': ops[:], 'what': 'an edit on a document object that was edited before differs from the same edit on a fresh parse of the same text', 'same_object': same[1][:300], 'fresh_parse': fresh[1][:300]}); break
            if same[0] != 'ok': continue
            cur = fresh[1]
# ---- directly applied functions (coverage probe: resolution.function_call_scope was never executed): formal parameters take the
# supplied argument or their default (a default may name another formal), a missing one is an error, an unbound body name is an error
if prop == 'C10':
    from nix_manipulator.resolution import function_call_scope, set_resolution_context, attach_resolution_context
    from nix_manipulator.expressions.parenthesis import Parenthesis
    def call_value(text):
        try:
            call = parse(text).expr; ps = function_call_scope(call)
            if ps is None: return 'NOSCOPE'
            fn = call.name
            if isinstance(fn, Parenthesis): fn = fn.value
            out = fn.output; set_resolution_context(out, (ps,)); attach_resolution_context(out, owner=out)
            v = out.value; g = v.rebuild().strip() if hasattr(v, 'rebuild') else repr(v)
            return g
        except ResolutionError: return 'RESERR'
        except Exception as ex: return 'EXC:' + type(ex).__name__
    for it in range(max(60, N // 3)):
        fn_ = ['a', 'b', 'c']; formals = R.sample(fn_, R.randint(1, 3)); defaults = {}; args = {}
        for f_ in formals:
            r_ = R.random()
            if r_ < 0.3: defaults[f_] = str(R.randrange(10, 50))
            elif r_ < 0.4 and f_ != formals[0]: defaults[f_] = formals[0]          # default naming another formal
            if R.random() < 0.85: args[f_] = str(R.randrange(50, 99))
        body = R.choice(fn_ + ['zz']); ell = R.random() < 0.3; extra = R.random() < 0.2
        if extra and ell: args['q'] = '7'
        style = R.choice(['literal', 'paren', 'let_ident'])
        atext = '{ ' + ' '.join('%s = %s;' % kv for kv in args.items()) + ' }' if args else '{ }'
        head = '({ ' + ', '.join((f_ + ' ? ' + defaults[f_]) if f_ in defaults else f_ for f_ in formals) + (', ...' if ell else '') + ' }: ' + body + ')'
        text = {'literal': head + ' ' + atext, 'paren': head + ' (' + atext + ')', 'let_ident': 'let args = ' + atext + '; in ' + head + ' args'}[style] + '\n'
        # expected by Nix's rules for a call with a set pattern
        def val(nm, seen=()):
            if nm in seen: return 'RESERR'
            if nm not in formals: return 'RESERR'
            if nm in args: return args[nm]
            if nm in defaults: return defaults[nm] if defaults[nm].isdigit() else val(defaults[nm], seen + (nm,))
            return 'MISSING'
        missing = any(f_ not in args and f_ not in defaults for f_ in formals)
        want = 'RESERR' if missing else val(body)
        got = call_value(text); count('applied-function/%s/%s' % (style, 'refuse' if want == 'RESERR' else 'value'))
        if got != want: viol.append({'doc': text, 'what': 'applied function: Nix gives %s for the body name, resolution gives %s' % (want, got)})
    for text, want in [('({ a ? 0 }: a) { a.b = 1; }\n', '{ b = 1; }'), ('({ a }: a) { a.b = 1; }\n', '{ b = 1; }'), ('({ a ? 0, c }: a) { a.b.d = 1; c = 2; }\n', '{ b.d = 1; }'), ('({ a ? 0, c }: c) { a.b.d = 1; c = 2; }\n', '2'),
                       ('(x: x) 5\n', '5'), ('(x: y) 5\n', 'RESERR'), ('({ x }: x) 1\n', 'RESERR'), ('x { a = 1; }\n', 'NOSCOPE')]:
        got = ' '.join(call_value(text).split()); count('applied-function/fixed')
        if got != want: viol.append({'doc': text, 'what': 'applied function: expected %s, resolution gives %s' % (want, got)})
# ---- inherit and inherit (src) (coverage probe: the inherit branch of _resolve_identifier was never executed): an inherited name is
# followed to its source — a let-bound attribute set, the enclosing scope — an inner let shadows it, a source without the
# attribute or that is not a set is an error
if prop == 'C10':
    def ires(text):
        try:
            x = parse(text)['x']; v = x.value if isinstance(x, Identifier) else x
            g = v.rebuild().strip() if hasattr(v, 'rebuild') else repr(v); return g
        except ResolutionError: return 'RESERR'
        except Exception as ex: return 'EXC:' + type(ex).__name__
    for it in range(max(60, N // 3)):
        names = R.sample(['a', 'b', 'c'], R.randint(1, 3)); src = {nm: R.randrange(10, 99) for nm in names}
        asked = R.choice(['a', 'b', 'c']); inh = sorted(set(R.sample(['a', 'b', 'c'], R.randint(1, 2)) + ([asked] if R.random() < 0.8 else [])))
        stext = '{ ' + ' '.join('%s = %d;' % kv for kv in src.items()) + ' }'
        tpl = R.choice(['inner_let', 'same_let', 'shadow', 'rec', 'plain_inherit', 'via_ref', 'not_a_set', 'no_source'])
        want = str(src[asked]) if asked in src and asked in inh else 'RESERR'
        if tpl == 'inner_let': text = 'let s = %s; in let inherit (s) %s; in { x = %s; }' % (stext, ' '.join(inh), asked)
        elif tpl == 'same_let': text = 'let s = %s; inherit (s) %s; in { x = %s; }' % (stext, ' '.join(inh), asked)
        elif tpl == 'shadow': text = 'let s = %s; in let inherit (s) %s; in let %s = 7; in { x = %s; }' % (stext, ' '.join(inh), asked, asked); want = '7'
        elif tpl == 'rec': text = 'let s = %s; in rec { inherit (s) %s; x = %s; }' % (stext, ' '.join(inh), asked)
        elif tpl == 'plain_inherit': text = 'let %s = 5; in { inherit %s; x = %s; }' % (asked, asked, asked); want = '5'
        elif tpl == 'via_ref': text = 'let r = 4; s = { %s = r; }; in let inherit (s) %s; in { x = %s; }' % (asked, asked, asked); want = '4'
        elif tpl == 'not_a_set': text = 'let s = 5; in let inherit (s) %s; in { x = %s; }' % (asked, asked); want = 'RESERR'
        else: text = 'let inherit (s) %s; in { x = %s; }' % (asked, asked); want = 'RESERR'
        got = ires(text + '\n'); count('inherit/%s/%s' % (tpl, 'refuse' if want == 'RESERR' else 'value'))
        if got != want: viol.append({'doc': text, 'path': ['x'], 'what': 'inherit: Nix gives %s, resolution gives %s' % (want, got)})
# ---- references fetched through the scope mapping (mutation probe: Scope.__getitem__ attaching the context had no observer):
# a let binding whose value is a name, looked up with expr.scope[name], resolves among the bindings of its own let (order-independent)
if prop == 'C10':
    for text, k, want in [('let a = 1; b = a; in { x = b; }', 'b', '1'), ('let b = a; a = 1; in { }', 'b', '1'), ('let b = zz; in { }', 'b', 'RESERR'),
                          ('let a = b; b = a; in { }', 'a', 'RESERR'), ('let a = 2; b = a; c = b; in { }', 'c', '2'), ('{ p }: let a = 3; b = a; in { }', None, None)]:
        if k is None: continue
        count('scope-mapping-reference')
        try:
            x = parse(text + '\n').expr.scope[k]; r_ = x.value; got = r_.rebuild().strip() if hasattr(r_, 'rebuild') else repr(r_)
        except ResolutionError: got = 'RESERR'
        except Exception as ex: got = 'EXC:' + type(ex).__name__
        if got != want: viol.append({'doc': text, 'path': ['<scope>', k], 'what': 'a reference fetched through the scope mapping resolves to %s, its own let gives %s' % (got, want)})
# ---- histories on a `with` expression through its own item access (sixth round of seeds): after the environment gains, loses or
# replaces a binding, a name resolved through with_expr[key] follows the environment as it is NOW
if prop == 'C10':
    def wv(e, k):
        try:
            x = e[k]; r_ = x.value if isinstance(x, Identifier) else x; return r_.rebuild().strip() if hasattr(r_, 'rebuild') else repr(r_)
        except ResolutionError: return 'RESERR'
        except Exception as ex: return 'EXC:' + type(ex).__name__
    def hist(name, text, steps):
        e = parse(text + '\n').expr; count('with-history')
        for i, (act, want) in enumerate(steps):
            got = act(e)
            if want is not None and got != want:
                viol.append({'doc': text, 'history': name, 'step': i, 'what': 'after the with environment changed, resolution gives %s, the environment now gives %s' % (got, want)}); return
    hist('add', 'with { a = 5; }; { foo = a; bar = b; }', [(lambda e: wv(e, 'foo'), '5'), (lambda e: wv(e, 'bar'), 'RESERR'), (lambda e: e.environment.__setitem__('b', 7), None), (lambda e: wv(e, 'bar'), '7'), (lambda e: wv(e, 'foo'), '5')])
    hist('delete', 'with { a = 5; c = 1; }; { foo = a; }', [(lambda e: wv(e, 'foo'), '5'), (lambda e: e.environment.__delitem__('a'), None), (lambda e: wv(e, 'foo'), 'RESERR')])
    hist('overwrite', 'with { a = 5; }; { foo = a; }', [(lambda e: wv(e, 'foo'), '5'), (lambda e: e.environment.__setitem__('a', 8), None), (lambda e: wv(e, 'foo'), '8')])
    hist('replace-env', 'let env = { a = 1; }; in with env; { foo = a; }', [(lambda e: wv(e, 'foo'), '1'), (lambda e: e.scope.__setitem__('env', parse('{ a = 2; }').expr), None), (lambda e: wv(e, 'foo'), '2')])
    try:
        from nix_manipulator.expressions.with_statement import WithStatement
        d1 = parse('with { a = 1; }; { foo = a; }\n'); count('with-history'); v1 = wv(d1.expr, 'foo')
        w2 = WithStatement(environment=parse('{ a = 2; }').expr, body=d1.expr.body); v2 = wv(w2, 'foo')
        if (v1, v2) != ('1', '2'): viol.append({'doc': 'with { a = 1; }; { foo = a; }', 'history': 'body reused under another with', 'what': 'resolution gives %s then %s; the enclosing environments give 1 then 2' % (v1, v2)})
    except Exception as ex: viol.append({'doc': 'WithStatement(environment=…, body=…)', 'what': 'history crashed: %s' % type(ex).__name__})
# ---- stacked `with` environments and nothing else (fourth round of seeds): among withs the innermost one that has the name wins;
# reached through the document-level item access, with an identifier or an attribute set as the body
if prop == 'C10':
    def res2(f):
        try:
            v = f(); g = v.rebuild().strip() if hasattr(v, 'rebuild') else repr(v); return g
        except ResolutionError: return 'RESERR'
        except Exception as ex: return 'EXC:' + type(ex).__name__
    for it in range(max(40, N // 4)):
        k = R.randint(1, 3); wn = ['x', 'y', 'a']
        envs = [{nm: R.randrange(10, 99) for nm in R.sample(wn, R.randint(1, 2))} for _ in range(k)]
        kind = R.choice(['ident_body', 'set_body']); target = R.choice(wn); exp = None
        for fr in reversed(envs):
            if target in fr: exp = fr[target]; break
        if kind == 'ident_body':
            text = ' '.join('with { %s };' % ' '.join('%s = { foo = %d; };' % kv for kv in fr.items()) for fr in envs) + ' ' + target + '\n'
            got = res2(lambda: parse(text)['foo'])
        else:
            text = ' '.join('with { %s };' % ' '.join('%s = %d;' % kv for kv in fr.items()) for fr in envs) + ' { foo = %s; }\n' % target
            got = res2(lambda: parse(text)['foo'].value)
        want = str(exp) if exp is not None else 'RESERR'; count('with-stack/%s/%d' % (kind, k))
        if got != want: viol.append({'doc': text, 'path': ['foo'], 'what': 'among stacked with environments Nix takes %s (innermost environment that has the name), resolution gives %s' % (want, got)})
for it in range(N):
    doc = gen_doc(); text = show(doc) + '\n'
    e, env = whnf(doc, [], set(), [])
    path = []; cur = None
    for _ in range(3):
        frm = set_frame(e, env); k = R.choice(sorted(frm)); path.append(k); ve, venv, where = frm[k]
        if ve[0] == 'set': e, env = ve, venv; continue
        cur = (ve, venv, where); break
    if cur is None or cur[0][0] != 'ref': count('no-reference-target'); continue
    trail = []
    try:
        fe, fenv = whnf(cur[0], cur[1], set(), trail); exp = str(fe[1]) if fe[0] == 'int' else '<set>'
    except Unbound: exp = 'UNBOUND'
    except (Cycle, RecursionError): exp = 'CYCLE'
    case = {'doc': text, 'path': path}
    if prop == 'C10':
        try:
            x = parse(text)
            for k in path: x = x[k]
            if not isinstance(x, Identifier): count('not-identifier'); continue
            v = x.value; got = v.rebuild().strip() if hasattr(v, 'rebuild') else repr(v)
            got = got if got.isdigit() else '<set>'
        except ResolutionError: got = 'RESERR'
        except Exception as ex: got = 'EXC:' + type(ex).__name__
        count('value' if exp.isdigit() else exp)
        if exp in ('UNBOUND', 'CYCLE'):
            if got != 'RESERR': viol.append(dict(case, what='Nix scoping gives %s, resolution returned %s' % (exp, got)))
        elif got != exp: viol.append(dict(case, what='Nix scoping designates %s, resolution gives %s' % (exp, got)))
    else:   # C11: which binding does `set path 777` rewrite
        if len(path) != 1: count('nested-skip'); continue
        try: out = set_value(parse(text), path[0], '777')
        except Exception as ex: viol.append(dict(case, what='set through a reference raises %s' % type(ex).__name__)); continue
        count('resolves' if exp.isdigit() or exp == '<set>' else exp)
        # expected text: the defining binding at the end of the chain gets 777; when the name is bound nowhere, the addressed binding
        if exp in ('UNBOUND', 'CYCLE'):
            names_anywhere = set(re.findall(r"([a-e]) =", text))
            if cur[0][1] in names_anywhere: count('fallback-not-judged'); continue          # a binding of that name exists somewhere: not judged
            where = cur[2]
        else: where = trail[-1]
        def render(e):
            t = e[0]
            if t == 'int': return str(e[1])
            if t == 'ref': return e[1]
            if t == 'set': return ('rec ' if e[1] else '') + '{ ' + ' '.join('%s = %s;' % (k, '777' if where == ('bind', id(e), k) else render(v)) for k, v in e[2]) + ' }'
            return 'let ' + ' '.join('%s = %s;' % (k, '777' if where == ('let', id(e), k) else render(v)) for k, v in e[1]) + ' in ' + render(e[2])
        want = render(doc)
        if ' '.join(out.split()) != ' '.join(want.split()): viol.append(dict(case, what='set through a reference rewrote the wrong binding', got=out, expected=want))
    if len(samples) < 3: samples.append(case)
print(json.dumps({'evaluations': sum(dist.values()), 'distinct': len(dist), 'distribution': dist, 'violations': viol[:6], 'n_violations': len(viol), 'samples': samples}))

(* C10 — identifier resolution follows Nix lexical scoping or fails explicitly.
   Three models, each tied to the code by an in-Coq correspondence:
   R.ResolveCore    _resolve_identifier over an explicit scope chain (innermost first, quoted-name fallback,
                    `inherit x;`, both visited sets, the suffix chain handed to recursive calls);
   C.ChainModel     chain construction while traversing (scopes_for_owner / attach_resolution_context / __getitem__ /
                    Identifier.value) as a state machine over the registry, for nested plain and rec sets with let layers;
   Small.Registry   the identity-keyed registry _CONTEXTS with death, address reuse and weak-reference callbacks. *)
From Coq Require Import List Ascii String Bool Arith Lia.
Import ListNotations.
From R Require Import ResolveCore ResolveProofs.
From C Require Import ChainModel ChainProps ChainInv.
From Small Require Import Registry.
Close Scope string_scope.

(* bounded time: the lookup never runs out of its fuel — unbound names and cycles end in an explicit error *)
Theorem C10_terminates : forall name rc, resolve_top name rc <> RErr OutOfFuel.
Proof. exact ResolveProofs.C10_terminates. Qed.
Print Assumptions C10_terminates.

(* lexical scoping, rec-free documents: after ANY history of accesses to the same document, every answer is the answer
   of the registry-free traversal that hands the lookup exactly the let layers of the enclosing sets, outermost first *)
Theorem C10_lexical_partial : forall t top p, wf t top p ->
  forall h, answers t top [] h = map (access_pure t top) h.
Proof. exact C10_C15_history_independent. Qed.
Print Assumptions C10_lexical_partial.

(* the certificate is decidable, so the harness evaluates it per document *)
Theorem C10_domain_decidable : forall t top p, wfb t top p = true -> wf t top p.
Proof. exact wfb_sound. Qed.
Print Assumptions C10_domain_decidable.

(* FULL statement (all documents, rec sets included) is REFUTED on the faithful model, finding F-26:
   let b = d; in let d = 90; in rec { d = b; } answers 90 (Nix: undefined variable) and the stored chain grows by four
   entries on every traversal *)
Theorem C10_rec_full_refuted :
  map stored_len [1; 2; 3; 4] = [Some 5; Some 9; Some 13; Some 17] /\ snd (repeat_access 3 []) = [OInt 90; OInt 90; OInt 90].
Proof. exact F26_chain_grows. Qed.
Print Assumptions C10_rec_full_refuted.

(* a result is never taken from an unrelated document: after any admissible history of stores, clears, lookups and
   object deaths (with address reuse), a lookup returns a context only if it is the last one stored for that very object *)
Theorem C10_registry_sound : forall (ctx : Type) (addr : nat -> nat) (h : list (op ctx)) o c,
  alive_ok ctx [] h -> ~ In o (deads ctx h) ->
  get ctx addr (run ctx addr (init ctx) h) o = Some c -> g ctx (run ctx addr (init ctx) h) o = Some c.
Proof. exact registry_sound. Qed.
Print Assumptions C10_registry_sound.

(* chain construction, over the REGENERATED scopes_for_owner / _collect_scopes_from_layers of resolution.py (tools/scopes2v.py, Dyn/ScopesProps.v):
   the order in which the resolver meets the scopes of an attribute-set owner — its own values first when it is a rec set, then its let layers
   from the innermost to the outermost, then what it inherited — for every owner; and the chain of the traversal model above is that chain *)
From Dyn Require Import ScopesGen ScopesProps.
Theorem C10_search_order : forall S (o : owner S),
  rev (scopes_for_owner_set S o) =
  (if o_recursive S o then [o_self S o] else []) ++ rev (map (layer_scope S) (filter (layer_nonempty S) (o_stack S o)))
  ++ rev (opt_one S (o_scope S o)) ++ rev (opt_list S (o_inherited S o)).
Proof. exact search_order. Qed.
Print Assumptions C10_search_order.
Theorem C10_inner_layer_first : forall S (o : owner S) pre a mid b post,
  filter (layer_nonempty S) (o_stack S o) = pre ++ a :: mid ++ b :: post ->
  exists u v w, rev (scopes_for_owner_set S o) = u ++ layer_scope S b :: v ++ layer_scope S a :: w.
Proof. exact inner_layer_first. Qed.
Print Assumptions C10_inner_layer_first.
Theorem C10_model_chain_is_source_chain : forall t r sid s,
  tget t sid = Some s -> snd (scopes_for_owner t r sid) = scopes_for_owner_set sref (mk_owner r sid s).
Proof. exact model_chain_is_generated. Qed.
Print Assumptions C10_model_chain_is_source_chain.

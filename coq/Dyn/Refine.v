(* Refinement: the GENERATED loop (Gen.v, regenerated from the Python source) equals the
   structural spec function of NixLex.v; property theorems transfer through it. *)
From Coq Require Import List Ascii String Bool Arith Lia.
Import ListNotations.
From Dyn Require Import Gen.
From Lex Require Import NixLex.
Open Scope char_scope.

Lemma gen_loop_acc fuel interp rest acc :
  _escape_nix_string_loop fuel interp rest acc = acc ++ _escape_nix_string_loop fuel interp rest [].
Proof.
  revert rest acc. induction fuel as [|f IH]; intros rest acc; cbn [_escape_nix_string_loop].
  - now rewrite app_nil_r.
  - destruct (has_at 0 rest); [|now rewrite app_nil_r].
    cbv zeta.
    repeat match goal with
    | |- context [if ?b then _ else _] => destruct b
    end; rewrite IH; symmetry; rewrite IH; cbn [app]; repeat rewrite <- app_assoc; reflexivity.
Qed.

Lemma gen_refines interp : forall f rest, List.length rest <= f ->
  _escape_nix_string_loop f interp rest [] = escape_spec interp rest.
Proof.
  induction f as [|f IH]; intros rest Hle.
  - destruct rest; [reflexivity|cbn in Hle; lia].
  - destruct rest as [|ch rest1]; [reflexivity|].
    cbn [List.length] in Hle. cbn [_escape_nix_string_loop escape_spec].
    change (has_at 0 (ch :: rest1)) with true. cbv iota zeta.
    change (at_ 0 (ch :: rest1)) with ch. change (skipn 1 (ch :: rest1)) with rest1.
    change (c 92) with BS. change (c 34) with DQ. change (c 10) with LF. change (c 13) with CR. change (c 9) with TAB.
    change (c 36) with "$". change (c 123) with "{". change (c 110) with "n". change (c 114) with "r". change (c 116) with "t".
    cbn [app].
    destruct (ch =c BS); [rewrite gen_loop_acc, IH by lia; reflexivity|].
    destruct (ch =c DQ); [rewrite gen_loop_acc, IH by lia; reflexivity|].
    destruct (ch =c LF); [rewrite gen_loop_acc, IH by lia; reflexivity|].
    destruct (ch =c CR); [rewrite gen_loop_acc, IH by lia; reflexivity|].
    destruct (ch =c TAB); [rewrite gen_loop_acc, IH by lia; reflexivity|].
    destruct rest1 as [|c2 r2].
    + change (has_at 1 [ch]) with false. rewrite andb_false_r. cbn [andb].
      rewrite gen_loop_acc, IH by (cbn; lia). reflexivity.
    + change (has_at 1 (ch :: c2 :: r2)) with true. change (at_ 1 (ch :: c2 :: r2)) with c2.
      change (skipn 2 (ch :: c2 :: r2)) with r2. rewrite andb_true_r.
      cbn [List.length] in Hle.
      destruct (interp && (ch =c "$") && (c2 =c "{")).
      * rewrite gen_loop_acc, IH by lia. reflexivity.
      * rewrite gen_loop_acc, IH by (cbn [List.length]; lia). reflexivity.
Qed.

Theorem generated_escape_is_spec interp value : _escape_nix_string interp value = escape_spec interp value.
Proof. apply gen_refines. lia. Qed.

(* the property theorem, now about the code as it is in /repo today *)
Theorem C12_written_core : forall s, nix_read (_escape_nix_string true s) = Some s.
Proof. intros s. rewrite generated_escape_is_spec. apply read_escape. Qed.
Print Assumptions C12_written_core.


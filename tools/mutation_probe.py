"""Maintenance tool (by hand, never by a check): automatic first-order mutants of /repo's source, filtered by the pinned test
suite (only mutants that still give 340 passed are of interest), then run against the quick checks of the properties the mutated
file bears on — each mutant in its own scratch worktree (NIMA_REPO), several at a time.  Survivors (tests pass, no check reports)
are printed for review: each is either harmless (the properties still hold) or a blind spot of the checks.
usage: mutation_probe.py [-j N] [--per-file K] [--seed S] [FILE ...]   (FILE relative to nix_manipulator/)"""
import ast, copy, json, os, random, subprocess, sys, concurrent.futures as cf

REPO = '/repo'; SCR = '/tmp/scratch/mut'
FILE_PROPS = {
    'expressions/trivia.py': ['C01', 'C03', 'C06', 'C18'], 'expressions/comment.py': ['C03', 'C06', 'C18'], 'expressions/binding.py': ['C01', 'C03', 'C12', 'C18'],
    'expressions/set.py': ['C04', 'C05', 'C14', 'C13', 'C01', 'C10', 'C11'], 'expressions/list.py': ['C01', 'C13', 'C18', 'C20'], 'expressions/let.py': ['C01', 'C09', 'C18'],
    'expressions/with_statement.py': ['C01', 'C03', 'C18'], 'expressions/assertion.py': ['C01', 'C03', 'C15'], 'expressions/if_expression.py': ['C01', 'C06', 'C18'],
    'expressions/binary.py': ['C01', 'C03', 'C15'], 'expressions/inherit.py': ['C01', 'C03', 'C18'], 'expressions/function/definition.py': ['C01', 'C03', 'C18'],
    'expressions/function/call.py': ['C01', 'C18', 'C20'], 'expressions/parenthesis.py': ['C01', 'C18'], 'expressions/select.py': ['C01', 'C03'],
    'expressions/identifier.py': ['C10', 'C11', 'C05'], 'resolution.py': ['C10', 'C11', 'C15'], 'expressions/scope.py': ['C14', 'C09', 'C10'],
    'expressions/source_code.py': ['C07', 'C14', 'C16', 'C01'], 'expressions/primitive.py': ['C13', 'C12', 'C01'], 'expressions/expression.py': ['C13', 'C09', 'C15'],
    'expressions/path.py': ['C17', 'C15'], 'expressions/import_expression.py': ['C17'], 'parser.py': ['C07', 'C17', 'C20'], 'mapping.py': ['C01', 'C17'],
    'cli/manipulations.py': ['C04', 'C05', 'C08', 'C09', 'C11', 'C12', 'C19'], 'cli/main.py': ['C16', 'C07'], 'cli/parser.py': ['C16'],
    'expressions/unary.py': ['C01'], 'expressions/has_attr.py': ['C01'], 'expressions/indented_string.py': ['C01', 'C02'],
}

for _f, _ps in FILE_PROPS.items():          # layout-changing mutants of the rendering code are C02's business (canonical sources byte for byte)
    if _f.startswith('expressions/') and _f not in ('expressions/identifier.py', 'expressions/scope.py', 'expressions/path.py', 'expressions/import_expression.py', 'expressions/source_code.py', 'expressions/expression.py'):
        for _q in ('C01', 'C03', 'C18', 'C06'):
            if _q not in _ps: _ps.append(_q)
    if _f.startswith('expressions/') and 'C02' not in _ps and _f not in ('expressions/identifier.py', 'expressions/scope.py', 'expressions/path.py', 'expressions/import_expression.py'): _ps.append('C02')
CMP = {ast.Eq: ast.NotEq, ast.NotEq: ast.Eq, ast.Lt: ast.LtE, ast.LtE: ast.Lt, ast.Gt: ast.GtE, ast.GtE: ast.Gt, ast.Is: ast.IsNot, ast.IsNot: ast.Is, ast.In: ast.NotIn, ast.NotIn: ast.In}

class Sites(ast.NodeVisitor):
    """enumerate mutation sites as (kind, node id) in source order"""
    def __init__(self): self.sites = []; self.n = 0
    def generic_visit(self, node):
        node._mid = self.n; self.n += 1
        if isinstance(node, ast.Compare) and len(node.ops) == 1 and type(node.ops[0]) in CMP: self.sites.append(('cmp', node._mid))
        if isinstance(node, ast.BoolOp): self.sites.append(('boolop', node._mid))
        if isinstance(node, ast.UnaryOp) and isinstance(node.op, ast.Not): self.sites.append(('dropnot', node._mid))
        if isinstance(node, ast.If): self.sites.append(('iftrue', node._mid)); self.sites.append(('iffalse', node._mid))
        if isinstance(node, ast.Constant) and isinstance(node.value, bool): self.sites.append(('flipbool', node._mid))
        elif isinstance(node, ast.Constant) and isinstance(node.value, int) and not isinstance(node.value, bool) and 0 <= node.value <= 3: self.sites.append(('intpm', node._mid))
        if isinstance(node, ast.BinOp) and isinstance(node.op, (ast.Add, ast.Sub)): self.sites.append(('addsub', node._mid))
        if isinstance(node, (ast.Expr,)) and isinstance(node.value, ast.Call): self.sites.append(('delcall', node._mid))
        if isinstance(node, (ast.Assign, ast.AugAssign)) and not isinstance(getattr(node, 'value', None), ast.Constant): self.sites.append(('delassign', node._mid))
        if isinstance(node, ast.Return) and node.value is not None and not isinstance(node.value, ast.Constant): self.sites.append(('retnone', node._mid))
        if isinstance(node, (ast.Break, ast.Continue)): self.sites.append(('swapbc', node._mid))
        super().generic_visit(node)

class Apply(ast.NodeTransformer):
    def __init__(self, kind, mid): self.kind, self.mid, self.n, self.desc = kind, mid, 0, None
    def generic_visit(self, node):
        my = self.n; self.n += 1
        node = super().generic_visit(node)
        if my != self.mid: return node
        k = self.kind; line = getattr(node, 'lineno', '?')
        if k == 'cmp': node.ops = [CMP[type(node.ops[0])]()]
        elif k == 'boolop': node.op = ast.Or() if isinstance(node.op, ast.And) else ast.And()
        elif k == 'dropnot': self.desc = 'line %s: drop not' % line; return node.operand
        elif k == 'iftrue': node.test = ast.Constant(True)
        elif k == 'iffalse': node.test = ast.Constant(False)
        elif k == 'flipbool': node.value = not node.value
        elif k == 'intpm': node.value = node.value + 1
        elif k == 'addsub': node.op = ast.Sub() if isinstance(node.op, ast.Add) else ast.Add()
        elif k in ('delcall', 'delassign'): self.desc = 'line %s: %s' % (line, k); return ast.copy_location(ast.Pass(), node)
        elif k == 'retnone': node.value = ast.Constant(None)
        elif k == 'swapbc': self.desc = 'line %s: swap break/continue' % line; return ast.copy_location(ast.Continue() if isinstance(node, ast.Break) else ast.Break(), node)
        self.desc = 'line %s: %s' % (line, k)
        return node

def sh(cmd, **kw): return subprocess.run(cmd, shell=isinstance(cmd, str), stdout=subprocess.PIPE, stderr=subprocess.STDOUT, text=True, **kw)

def one(job):
    idx, rel, kind, mid = job
    w = '%s/m%d' % (SCR, idx)
    sh('rm -rf %s %s-out; git -C %s worktree add -q --detach %s HEAD' % (w, w, REPO, w))
    try:
        path = os.path.join(w, 'nix_manipulator', rel); src = open(path).read(); tree = ast.parse(src)
        ap = Apply(kind, mid); new = ap.visit(tree); ast.fix_missing_locations(new)
        try: code = ast.unparse(new); compile(code, path, 'exec')
        except Exception: return None
        if code == ast.unparse(ast.parse(src)): return None
        open(path, 'w').write(code + '\n')
        env = dict(os.environ, PYTHONPATH=w, PYTHONDONTWRITEBYTECODE='1')
        t = sh('cd %s && timeout 300 /venv/bin/python -m pytest -q -p no:cacheprovider --timeout=300 --continue-on-collection-errors 2>&1 | tail -1' % w, env=env).stdout
        if '340 passed' not in t or '72 failed' not in t: return {'idx': idx, 'file': rel, 'mutation': ap.desc, 'status': 'killed-by-tests'}
        caught = None
        for p in FILE_PROPS.get(rel, ['C01']):
            e2 = dict(os.environ, NIMA_REPO=w, VERIF_BUILD_DIR=w + '-out/build', VERIF_REPLAY_DIR=w + '-out', VERIF_EVIDENCE_DIR=w + '-out/evidence')
            o = sh('timeout 1500 /verif/check %s --tier quick 2>&1' % p, env=e2).stdout
            if 'VIOLATION property=' in o: caught = p; break
        return {'idx': idx, 'file': rel, 'mutation': ap.desc, 'status': 'caught:' + caught if caught else 'SURVIVED'}
    finally:
        sh('git -C %s worktree remove --force %s; rm -rf %s-out' % (REPO, w, w))

def main():
    args = sys.argv[1:]; J, K, seed = 6, 6, 1; files = []
    while args:
        a = args.pop(0)
        if a == '-j': J = int(args.pop(0))
        elif a == '--per-file': K = int(args.pop(0))
        elif a == '--seed': seed = int(args.pop(0))
        else: files.append(a)
    R = random.Random(seed); jobs = []; os.makedirs(SCR, exist_ok=True)
    if files and files[0] == '--from-log':          # re-run the survivors of an earlier run: --from-log LOGFILE
        import re
        for line in open(files[1]):
            if not line.startswith('{'): continue
            r = json.loads(line)
            if r['status'] != 'SURVIVED': continue
            m = re.match(r'line (\d+): (.*)', r['mutation']); lineno, kind = int(m.group(1)), {'drop not': 'dropnot', 'swap break/continue': 'swapbc'}.get(m.group(2), m.group(2))
            tree = ast.parse(open(os.path.join(REPO, 'nix_manipulator', r['file'])).read()); s = Sites(); s.visit(tree)
            by = {getattr(n, '_mid', None): n for n in ast.walk(tree)}
            c = [mid for k, mid in s.sites if k == kind and getattr(by.get(mid), 'lineno', None) == lineno]
            if c: jobs.append((len(jobs), r['file'], kind, c[0]))
        files = []
    else: files = files or list(FILE_PROPS)
    for rel in files:
        src = open(os.path.join(REPO, 'nix_manipulator', rel)).read(); s = Sites(); s.visit(ast.parse(src))
        for kind, mid in R.sample(s.sites, min(K, len(s.sites))): jobs.append((len(jobs), rel, kind, mid))
    print('%d mutants over %d files' % (len(jobs), len(files)), flush=True)
    res = []
    with cf.ThreadPoolExecutor(J) as ex:
        for r in ex.map(one, jobs):
            if r: res.append(r); print(json.dumps(r), flush=True)
    sh('git -C %s worktree prune' % REPO)
    from collections import Counter
    print(Counter(r['status'].split(':')[0] for r in res))
    for r in res:
        if r['status'] == 'SURVIVED': print('SURVIVOR', r['file'], r['mutation'])

if __name__ == '__main__': main()

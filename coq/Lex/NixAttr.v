(* SPEC (hand-written, trusted as the meaning of C12): how Nix reads one attribute-name token of an attrpath.
   A token is either a double-quoted string without interpolation (read by NixLex.nix_read) or a bare
   identifier  [a-zA-Z_][a-zA-Z0-9_'-]*  that is not a keyword.  `or` is accepted by Nix as an attribute name. *)
From Coq Require Import List Ascii String Bool Arith Lia.
Import ListNotations.
From Lex Require Import NixLex.
Open Scope char_scope.
Close Scope string_scope.

Definition is_letter (x : ascii) : bool :=
  let n := nat_of_ascii x in (Nat.leb 65 n && Nat.leb n 90) || (Nat.leb 97 n && Nat.leb n 122).
Definition is_digit (x : ascii) : bool := let n := nat_of_ascii x in Nat.leb 48 n && Nat.leb n 57.
Definition id_start (x : ascii) : bool := is_letter x || (x =c "_").
Definition id_rest (x : ascii) : bool := is_letter x || is_digit x || (x =c "_") || (x =c "'") || (x =c "-").
Definition nix_ident (s : str) : bool := match s with x :: r => id_start x && forallb id_rest r | [] => false end.

Fixpoint str_eqb (a b : str) : bool :=
  match a, b with [] , [] => true | x :: a', y :: b' => (x =c y) && str_eqb a' b' | _, _ => false end.
Lemma str_eqb_eq a b : str_eqb a b = true <-> a = b.
Proof.
  revert b. induction a as [|x a IH]; intros [|y b]; cbn; split; try congruence; try discriminate.
  - intros H. apply andb_prop in H. destruct H as [H1 H2]. apply Ascii.eqb_eq in H1. apply IH in H2. congruence.
  - intros H. injection H as -> ->. rewrite Ascii.eqb_refl. cbn. now apply IH.
Qed.

Definition s_ (x : string) : str := list_ascii_of_string x.
Definition nix_keywords : list str :=
  [s_ "assert"; s_ "else"; s_ "if"; s_ "in"; s_ "inherit"; s_ "let"; s_ "rec"; s_ "then"; s_ "with"]%string.
Definition is_keyword (s : str) : bool := existsb (str_eqb s) nix_keywords.

Definition nix_attr_read (tok : str) : option str :=
  match tok with
  | [] => None
  | q :: body =>
    if q =c DQ then
      match body with
      | [] => None
      | _ => if last body "a" =c DQ then nix_read (removelast body) else None
      end
    else if nix_ident tok && negb (is_keyword tok) then Some tok else None
  end.

Lemma attr_read_quoted body : nix_attr_read (DQ :: body ++ [DQ]) = nix_read body.
Proof.
  unfold nix_attr_read. change (DQ =c DQ) with true. cbv iota.
  destruct (body ++ [DQ]) eqn:E; [destruct body; discriminate|]. rewrite <- E.
  rewrite last_last, removelast_last. reflexivity.
Qed.
Lemma attr_read_bare tok : nix_ident tok = true -> is_keyword tok = false -> nix_attr_read tok = Some tok.
Proof.
  intros Hi Hk. destruct tok as [|q r]; [discriminate|]. unfold nix_attr_read.
  assert (Hq : (q =c DQ) = false).
  { destruct (q =c DQ) eqn:E; [|reflexivity]. apply Ascii.eqb_eq in E. subst q. discriminate. }
  rewrite Hq, Hi, Hk. reflexivity.
Qed.

(* sanity examples (tests of the spec, not theorems about the code) *)
Example ex1 : nix_attr_read (s_ "foo-bar") = Some (s_ "foo-bar"). Proof. reflexivity. Qed.
Example ex2 : nix_attr_read (s_ "if") = None. Proof. reflexivity. Qed.
Example ex3 : nix_attr_read (s_ """a.b""") = Some (s_ "a.b"). Proof. reflexivity. Qed.
Example ex4 : nix_attr_read (s_ """a${b}""") = None. Proof. reflexivity. Qed.

(* Proof spike, part 16: canonicalisation is idempotent in the strong sense — canon c is canonical and
   well-formed — hence the printer's output is a fixed point (C06) in the normal form (C18) on F0. *)
From Coq Require Import List Ascii String Bool Arith Lia.
Import ListNotations.
From F0 Require Import F0s Specs P1 P2 P3g P5 P6 P7 P8 P9 P10 P11 Canon P12 P13 Canonize P14 P15 P16a.
Open Scope char_scope.

(* ---------- gaps ---------- *)
Lemma streq_refl a : streq a a = true.
Proof. induction a as [|x a IH]; [reflexivity|]. cbn [streq]. now rewrite Ascii.eqb_refl, IH. Qed.
Lemma has_nl_app a b : has_nl (a ++ b) = has_nl a || has_nl b.
Proof. induction a as [|x a IH]; [reflexivity|]. cbn [app has_nl]. rewrite IH. now rewrite orb_assoc. Qed.
Lemma has_nl_sp k : has_nl (sp k) = false.
Proof. induction k as [|k IH]; [reflexivity|]. exact IH. Qed.
Lemma blank_after_sp k : blank_after (sp k) = false.
Proof. induction k as [|k IH]; [reflexivity|]. exact IH. Qed.
Lemma hel_sp k : has_empty_line (sp k) = false.
Proof. induction k as [|k IH]; [reflexivity|]. exact IH. Qed.
Lemma hel_lf_sp k : has_empty_line (LF :: sp k) = false.
Proof. cbn [has_empty_line]. rewrite blank_after_sp, hel_sp. reflexivity. Qed.
Lemma hel_lf_lf_sp k : has_empty_line (LF :: LF :: sp k) = true.
Proof. reflexivity. Qed.
Lemma blank_cases g : blank g = [] \/ blank g = [LF].
Proof. unfold blank. destruct (has_empty_line g); auto. Qed.
Lemma hel_lf b k : b = [] \/ b = [LF] -> has_empty_line (LF :: b ++ sp k) = match b with [] => false | _ => true end.
Proof. intros [-> | ->]; cbn [app]; [apply hel_lf_sp|apply hel_lf_lf_sp]. Qed.
Lemma blank_lf b k : b = [] \/ b = [LF] -> blank (LF :: b ++ sp k) = b.
Proof. intros H. unfold blank. rewrite (hel_lf b k H). destruct H as [-> | ->]; reflexivity. Qed.
Lemma blank_cgap g k : blank (cgap g k) = blank g.
Proof. apply blank_lf, blank_cases. Qed.
Lemma hel_cgap g k : has_empty_line (cgap g k) = has_empty_line g.
Proof. unfold cgap. rewrite (hel_lf _ k (blank_cases g)). unfold blank. destruct (has_empty_line g); reflexivity. Qed.
Lemma has_nl_cgap g k : has_nl (cgap g k) = true.
Proof. reflexivity. Qed.
Lemma after_sp k acc : after_last_nl (sp k) acc = acc + k.
Proof. revert acc. induction k as [|k IH]; intros acc; [cbn; lia|]. cbn [sp repeat after_last_nl]. change (" " =c LF) with false. cbv iota. fold (sp k). rewrite IH. lia. Qed.
Lemma indent_cgap g k : indent_from_gap (cgap g k) = k.
Proof.
  unfold indent_from_gap. rewrite has_nl_cgap. unfold cgap, blank. destruct (has_empty_line g); cbn [app after_last_nl];
    change (LF =c LF) with true; cbv iota; apply (after_sp k 0).
Qed.
Lemma own_line_cgap g k : own_line (cgap g k) k = true.
Proof. unfold own_line. rewrite blank_cgap. apply streq_refl. Qed.
Lemma own_line_lf b k : b = [] \/ b = [LF] -> own_line (LF :: b ++ sp k) k = true.
Proof. intros H. unfold own_line. rewrite (blank_lf b k H). apply streq_refl. Qed.

Lemma strip_zeros_idem t : strip_zeros (strip_zeros t) = strip_zeros t.
Proof.
  induction t as [|a t IH]; [reflexivity|]. cbn [strip_zeros].
  destruct (Ascii.eqb a "0") eqn:Ea.
  - apply Ascii.eqb_eq in Ea. subst a. destruct t as [|b t']; [reflexivity|]. exact IH.
  - assert (H : strip_zeros (a :: t) = a :: t).
    { destruct a as [[] [] [] [] [] [] [] []]; try reflexivity. discriminate Ea. }
    cbn [strip_zeros] in H. rewrite H. cbn [strip_zeros]. exact H.
Qed.

(* ---------- shape ---------- *)
Lemma is_cmt_canon c ind : is_cmt (canon c ind) = is_cmt c.
Proof.
  destruct c as [isint t|raw|n g1 g2 v g3|r gr body cg|body cg]; cbn [canon]; try reflexivity.
  - destruct (has_nl g2); reflexivity.
  - destruct body; [reflexivity|]. match goal with |- context [if ?b then _ else _] => destruct b end; reflexivity.
  - destruct body; [reflexivity|]. match goal with |- context [if ?b then _ else _] => destruct b end; reflexivity.
Qed.
Lemma is_bind_canon c ind : is_bind (canon c ind) = is_bind c.
Proof.
  destruct c as [isint t|raw|n g1 g2 v g3|r gr body cg|body cg]; cbn [canon]; try reflexivity.
  - destruct (has_nl g2); reflexivity.
  - destruct body; [reflexivity|]. match goal with |- context [if ?b then _ else _] => destruct b end; reflexivity.
  - destruct body; [reflexivity|]. match goal with |- context [if ?b then _ else _] => destruct b end; reflexivity.
Qed.
Lemma cmt_not_bind n : is_cmt n = true -> is_bind n = false.
Proof. destruct n; try discriminate; reflexivity. Qed.
Lemma is_line_sci raw : is_line_cmt (spec_comment_inline raw) = is_line_cmt raw.
Proof. unfold is_line_cmt. fold cfc. now rewrite ck_sci. Qed.
Lemma cmt_canon_ccmt raw : cmt_canon (spec_comment_inline raw) = true.
Proof. unfold cmt_canon. rewrite sci_idem. apply streq_refl. Qed.

Definition prev_rel (p p' : option cnode) : Prop :=
  match p, p' with Some a, Some b => is_bind b = is_bind a | None, None => True | _, _ => False end.

Lemma lines_ok_canon (cc : cnode -> cnode) (ccb : cnode -> bool) nb ind : forall l prev prev' seen,
  prev_rel prev prev' ->
  Forall (fun gn => is_cmt (snd gn) = false ->
                    ccb (cc (snd gn)) = true /\ is_cmt (cc (snd gn)) = false /\ is_bind (cc (snd gn)) = is_bind (snd gn)) l ->
  lines_ok ccb nb ind (canon_lines cc nb ind l prev seen) prev' seen = true.
Proof.
  induction l as [|[g n] t IH]; intros prev prev' seen Hp HF; [reflexivity|].
  inversion HF as [|? ? Hn Ht]; subst. cbn [snd] in Hn. cbn [canon_lines].
  destruct (is_cmt n) eqn:En.
  - cbn [lines_ok]. unfold ccmt at 1 2 3. cbn [is_cmt craw]. rewrite cmt_canon_ccmt. cbn [andb].
    apply andb_true_intro. split.
    + destruct prev as [p|], prev' as [p'|]; cbn [prev_rel] in Hp; try contradiction.
      * rewrite Hp.
        destruct ((if nb then is_bind p else true) && negb (has_nl g) && seen) eqn:Eio.
        -- apply andb_prop in Eio. destruct Eio as [Eio Hs]. apply andb_prop in Eio. destruct Eio as [Hb _].
           rewrite Hb, Hs. cbn [has_nl Ascii.eqb negb andb orb]. change (negb (has_nl [" "])) with true. cbn [andb]. reflexivity.
        -- rewrite has_nl_cgap. cbn [negb]. rewrite andb_false_r. cbn [andb]. apply own_line_cgap.
      * apply own_line_cgap.
    + apply IH; [|exact Ht]. cbn [prev_rel is_bind ccmt]. symmetry. apply cmt_not_bind, En.
  - destruct (Hn eq_refl) as (H1 & H2 & H3). cbn [lines_ok]. rewrite H2, own_line_cgap, H1. cbn [andb].
    apply IH; [|exact Ht]. exact H3.
Qed.

Lemma inline_ok_canon (cc : cnode -> cnode) (ccb : cnode -> bool) : forall l,
  inl_ok l ->
  Forall (fun gn => is_cmt (snd gn) = false -> ccb (cc (snd gn)) = true /\ is_cmt (cc (snd gn)) = false) l ->
  inline_ok_all ccb (canon_inline cc l) = true.
Proof.
  induction l as [|[g n] t IH]; intros Hin HF; [reflexivity|].
  destruct Hin as (Hc & _ & Hin'). inversion HF as [|? ? Hn Ht]; subst. cbn [snd] in Hn.
  destruct (Hn Hc) as [H1 H2]. cbn [canon_inline inline_ok_all]. rewrite H2, H1, (IH Hin' Ht). reflexivity.
Qed.

(* ---------- the Q1 flag of the closer is unchanged by canonicalisation ---------- *)
Lemma last_is_cmt_one x : last_is_cmt [x] = is_cmt (snd x).
Proof. destruct x as [g c]. reflexivity. Qed.
Lemma last_is_cmt_cons2 x y l : last_is_cmt (x :: y :: l) = last_is_cmt (y :: l).
Proof.
  unfold last_is_cmt. cbn [rev]. destruct (rev l ++ [y]) as [|p q] eqn:E.
  - apply app_eq_nil in E. destruct E as [_ E]. discriminate E.
  - reflexivity.
Qed.
Definition canon_elem (cc : cnode -> cnode) (nb : bool) (ind : nat) (g : str) (n : cnode) (prev : option cnode) (seen : bool) : str * cnode :=
  if is_cmt n then
    let inline_ok := match prev with
                     | Some p => (if nb then is_bind p else true) && negb (has_nl g) && seen
                     | None => false end in
    ((if inline_ok then [" "] else cgap g (ind)), ccmt (craw n))
  else (cgap g ind, cc n).
Lemma canon_lines_cons cc nb ind g n rest prev seen :
  canon_lines cc nb ind ((g, n) :: rest) prev seen =
  canon_elem cc nb ind g n prev seen :: canon_lines cc nb ind rest (Some n) (if is_cmt n then seen else true).
Proof. reflexivity. Qed.
Lemma is_cmt_elem cc nb ind g n prev seen : is_cmt (cc n) = is_cmt n -> is_cmt (snd (canon_elem cc nb ind g n prev seen)) = is_cmt n.
Proof. intros H. unfold canon_elem. destruct (is_cmt n) eqn:E; [reflexivity|exact H]. Qed.

Lemma last_is_cmt_canon cc nb ind : forall l prev seen,
  Forall (fun gn => is_cmt (cc (snd gn)) = is_cmt (snd gn)) l ->
  last_is_cmt (canon_lines cc nb ind l prev seen) = last_is_cmt l.
Proof.
  induction l as [|[g n] t IH]; intros prev seen HF; [reflexivity|].
  inversion HF as [|? ? Hn Ht]; subst. cbn [snd] in Hn. rewrite canon_lines_cons.
  destruct t as [|[g2 n2] t2].
  - cbn [canon_lines]. rewrite !last_is_cmt_one. cbn [snd]. apply is_cmt_elem, Hn.
  - rewrite (last_is_cmt_cons2 (g, n) (g2, n2) t2). rewrite <- (IH (Some n) (if is_cmt n then seen else true) Ht).
    rewrite (canon_lines_cons cc nb ind g2 n2 t2). apply last_is_cmt_cons2.
Qed.

Lemma hel_has_nl g : has_empty_line g = true -> has_nl g = true.
Proof.
  induction g as [|c r IH]; [discriminate|]. cbn [has_empty_line has_nl]. intros H.
  apply orb_prop in H. destruct H as [H|H].
  - apply andb_prop in H. destruct H as [H _]. now rewrite H.
  - rewrite (IH H). apply orb_true_r.
Qed.

Lemma gapafter_canon cc nb k : forall l prev seen cur cur' armed,
  gval cur' = gval cur ->
  (armed = true -> seen = true /\ exists p, prev = Some p /\ (nb = true -> is_bind p = true)) ->
  Forall (fun gn => is_cmt (cc (snd gn)) = is_cmt (snd gn) /\
                    (nb = true -> is_cmt (snd gn) = false -> is_bind (snd gn) = true)) l ->
  gval (gap_after_last_item (canon_lines cc nb k l prev seen) cur' armed) = gval (gap_after_last_item l cur armed).
Proof.
  induction l as [|[g n] t IH]; intros prev seen cur cur' armed Hc Ha HF; [exact Hc|].
  inversion HF as [|? ? Hn Ht]; subst. cbn [snd] in Hn. destruct Hn as [Hn1 Hn2].
  rewrite canon_lines_cons. unfold canon_elem. cbn [gap_after_last_item].
  destruct (is_cmt n) eqn:En.
  - cbn [gap_after_last_item is_cmt ccmt]. apply IH; [|intros Hf; discriminate Hf|exact Ht].
    destruct armed; [|exact Hc].
    destruct (Ha eq_refl) as (Hs & p & Hp & Hb). subst prev seen.
    assert (Hbp : (if nb then is_bind p else true) = true) by (destruct nb; [apply Hb; reflexivity|reflexivity]).
    rewrite Hbp. cbn [andb]. rewrite andb_true_r.
    destruct (has_nl g) eqn:Eg; cbn [negb gval].
    + rewrite has_nl_cgap, hel_cgap, Eg. reflexivity.
    + rewrite Eg. reflexivity.
  - cbn [gap_after_last_item]. rewrite Hn1. apply IH; [reflexivity| |exact Ht].
    intros _. split; [reflexivity|]. exists n. split; [reflexivity|]. intros Hnb. apply Hn2; [exact Hnb|reflexivity].
Qed.

Lemma spec_q1_canon cc nb k body :
  Forall (fun gn => is_cmt (cc (snd gn)) = is_cmt (snd gn) /\
                    (nb = true -> is_cmt (snd gn) = false -> is_bind (snd gn) = true)) body ->
  spec_q1 (canon_lines cc nb k body None false) = spec_q1 body.
Proof.
  intros HF. unfold spec_q1. fold (gval (gap_after_last_item (canon_lines cc nb k body None false) None false)).
  fold (gval (gap_after_last_item body None false)).
  rewrite (gapafter_canon cc nb k body None false None None false eq_refl); [|intros Hf; discriminate Hf|exact HF].
  rewrite last_is_cmt_canon; [reflexivity|]. eapply Forall_impl; [|exact HF]. intros a [H _]. exact H.
Qed.

(* ---------- no newline in = no newline out ---------- *)
Lemma has_nl_strip_zeros t : has_nl t = false -> has_nl (strip_zeros t) = false.
Proof.
  induction t as [|a t IH]; [reflexivity|]. intros H. cbn [has_nl] in H. apply orb_false_iff in H. destruct H as [Ha Ht].
  destruct (Ascii.eqb a "0") eqn:Ea.
  - apply Ascii.eqb_eq in Ea. subst a. cbn [strip_zeros]. destruct t as [|b t']; [reflexivity|]. apply IH, Ht.
  - assert (H : strip_zeros (a :: t) = a :: t).
    { destruct a as [[] [] [] [] [] [] [] []]; try reflexivity. discriminate Ea. }
    rewrite H. cbn [has_nl]. now rewrite Ha, Ht.
Qed.
Lemma flat_nonl l : has_nl (flat l) = false -> Forall (fun gn => has_nl (ctext (snd gn)) = false) l.
Proof.
  induction l as [|[g n] t IH]; intros H; [constructor|]. cbn [flat] in H. rewrite !has_nl_app in H.
  apply orb_false_iff in H. destruct H as [_ H]. apply orb_false_iff in H. destruct H as [Hn Ht].
  constructor; [exact Hn|apply IH, Ht].
Qed.
Lemma flat_inline_nonl (cc : cnode -> cnode) : forall l,
  Forall (fun gn => has_nl (ctext (cc (snd gn))) = false) l -> has_nl (flat (canon_inline cc l)) = false.
Proof.
  induction l as [|[g n] t IH]; intros HF; [reflexivity|]. inversion HF as [|? ? Hn Ht]; subst. cbn [snd] in Hn.
  cbn [canon_inline flat]. rewrite !has_nl_app, Hn, (IH Ht). reflexivity.
Qed.
Lemma set_text_nonl r gr body cg : has_nl (ctext (CSet r gr body cg)) = false -> has_nl (flat body) = false /\ has_nl cg = false.
Proof.
  rewrite ctext_set, has_nl_app. intros H. apply orb_false_iff in H. destruct H as [_ H].
  cbn [has_nl] in H. apply orb_false_iff in H. destruct H as [_ H]. rewrite !has_nl_app in H.
  apply orb_false_iff in H. destruct H as [H1 H]. apply orb_false_iff in H. destruct H as [H2 _]. now split.
Qed.
Lemma list_text_nonl body cg : has_nl (ctext (CList body cg)) = false -> has_nl (flat body) = false /\ has_nl cg = false.
Proof.
  rewrite ctext_list. intros H. cbn [has_nl] in H. apply orb_false_iff in H. destruct H as [_ H]. rewrite !has_nl_app in H.
  apply orb_false_iff in H. destruct H as [H1 H]. apply orb_false_iff in H. destruct H as [H2 _]. now split.
Qed.
Lemma set_text_ml r b cg' : has_nl (ctext (CSet r (grc r) b (LF :: cg'))) = true.
Proof. rewrite ctext_set, has_nl_app. cbn [has_nl]. rewrite !has_nl_app. cbn [has_nl]. change (LF =c LF) with true. cbn [orb]. rewrite !orb_true_r. reflexivity. Qed.
Lemma list_text_ml b cg' : has_nl (ctext (CList b (LF :: cg'))) = true.
Proof. rewrite ctext_list. cbn [has_nl]. rewrite !has_nl_app. cbn [has_nl]. change (LF =c LF) with true. cbn [orb]. rewrite !orb_true_r. reflexivity. Qed.
Lemma canon_lines_nonempty cc nb k l p sn : l <> [] -> canon_lines cc nb k l p sn <> [].
Proof. destruct l as [|[g n] t]; [congruence|]. intros _. rewrite canon_lines_cons. discriminate. Qed.
Lemma canon_inline_nonempty cc l : l <> [] -> canon_inline cc l <> [].
Proof. destruct l as [|[g n] t]; [congruence|]. intros _. discriminate. Qed.

Lemma wfF_children_set_bc body :
  (fix all (l : list (str * cnode)) : Prop :=
     match l with [] => True | (_, n) :: t => (wfF n /\ (is_bind n = true \/ is_cmt n = true)) /\ all t end) body ->
  Forall (fun gn => is_bind (snd gn) = true \/ is_cmt (snd gn) = true) body.
Proof. induction body as [|[g n] t IH]; intros H; constructor; [apply H|apply IH, H]. Qed.

Definition good (c : cnode) : Prop :=
  forall ind, canonical (canon c ind) ind = true /\ (has_nl (ctext c) = false -> has_nl (ctext (canon c ind)) = false).

Lemma closer_ok (q : bool) cg ind :
  streq (LF :: (if q then [] else blank cg) ++ sp ind)
        (LF :: (if q then [] else blank (LF :: (if q then [] else blank cg) ++ sp ind)) ++ sp ind) = true.
Proof.
  destruct q; [apply streq_refl|]. rewrite (blank_lf _ ind (blank_cases cg)). apply streq_refl.
Qed.

Theorem canon_canonical : forall c, wfF c -> is_cmt c = false -> good c.
Proof.
  induction c as [isint t|raw|n g1 g2 v g3 IHv|r gr body cg IHb|body cg IHb] using cnode_ind'; intros Hwf Hnc ind.
  - cbn [canon canonical ctext]. destruct isint; [|split; [reflexivity|auto]].
    rewrite strip_zeros_idem, streq_refl. split; [reflexivity|apply has_nl_strip_zeros].
  - discriminate.
  - cbn [wfF] in Hwf. destruct Hwf as (Hwv & _ & Hvc). cbn [canon].
    destruct (has_nl g2) eqn:Eg.
    + destruct (IHv Hwv Hvc (indent_from_gap g2)) as [Hc _]. split.
      * cbn [canonical streq isnil_b andb]. rewrite Ascii.eqb_refl. cbn [andb].
        rewrite has_nl_cgap, indent_cgap, own_line_cgap, Hc. reflexivity.
      * cbn [ctext]. rewrite !has_nl_app. cbn [has_nl]. rewrite !has_nl_app, Eg. rewrite !orb_true_r. discriminate.
    + destruct (IHv Hwv Hvc ind) as [Hc Hn]. split.
      * cbn [canonical streq isnil_b andb has_nl]. rewrite Ascii.eqb_refl. cbn [andb orb].
        change (" " =c LF) with false. cbn [orb]. rewrite Hc. reflexivity.
      * cbn [ctext]. rewrite !has_nl_app. cbn [has_nl]. rewrite !has_nl_app. cbn [has_nl].
        intros H. apply orb_false_iff in H. destruct H as [H1 H]. apply orb_false_iff in H. destruct H as [_ H].
        apply orb_false_iff in H. destruct H as [_ H]. apply orb_false_iff in H. destruct H as [_ H].
        apply orb_false_iff in H. destruct H as [H2 _]. rewrite H1, (Hn H2). reflexivity.
  - (* set *)
    cbn [wfF] in Hwf. destruct Hwf as (Hall & _ & Hinl). pose proof (wfF_children_set_bc _ Hall) as Hbc.
    apply wfF_children_set in Hall.
    assert (HG : Forall (fun gn => is_cmt (snd gn) = false -> good (snd gn)) body).
    { clear -IHb Hall. induction body as [|[g n] t IH]; [constructor|].
      inversion IHb; subst. inversion Hall; subst. constructor; [|apply IH; assumption]. cbn [snd] in *. intros Hc. apply H1; tauto. }
    assert (Hshape : forall k, Forall (fun gn => is_cmt (canon (snd gn) k) = is_cmt (snd gn) /\
                                 (true = true -> is_cmt (snd gn) = false -> is_bind (snd gn) = true)) body).
    { intros k. clear -Hbc. induction body as [|[g n] t IH]; [constructor|]. inversion Hbc as [|? ? Hn Ht]; subst.
      constructor; [|apply IH, Ht]. cbn [snd] in *. split; [apply is_cmt_canon|]. intros _ Hc. destruct Hn as [Hn|Hn]; [exact Hn|congruence]. }
    destruct body as [|b0 body'].
    { cbn [canon]. split.
      - cbn [canonical]. destruct r; cbn [streq andb]; rewrite ?Ascii.eqb_refl; cbn [andb];
          destruct (has_empty_line cg); rewrite ?hel_lf_lf_sp; try apply streq_refl; reflexivity.
      - intros H. apply set_text_nonl in H. destruct H as [_ H].
        destruct (has_empty_line cg) eqn:E; [apply hel_has_nl in E; congruence|]. destruct r; reflexivity. }
    set (body := b0 :: body') in *. assert (Hb : body <> []) by discriminate. clearbody body.
    rewrite (canon_set_eq r gr body cg ind Hb).
    destruct (has_nl (ctext (CSet r gr body cg))) eqn:Hnl; cbn [negb].
    + split; [|discriminate].
      rewrite canonical_set_ml; [|apply canon_lines_nonempty, Hb|apply set_text_ml].
      rewrite (spec_q1_canon _ true (ind + 2) body (Hshape (ind + 2))).
      rewrite lines_ok_canon; [|exact I|].
      * rewrite closer_ok. destruct r; cbn [streq andb]; rewrite ?Ascii.eqb_refl; reflexivity.
      * eapply Forall_impl; [|exact HG]. intros [g n] Hn Hc. cbn [snd] in *. destruct (Hn Hc (ind + 2)) as [H1 _].
        split; [exact H1|]. split; [rewrite is_cmt_canon; exact Hc|apply is_bind_canon].
    + destruct (Hinl eq_refl) as [_ Hin]. destruct (set_text_nonl _ _ _ _ Hnl) as [Hfl _]. apply flat_nonl in Hfl.
      assert (Hnn : has_nl (ctext (CSet r (grc r) (canon_inline (fun n => canon n (ind + 2)) body) [" "])) = false).
      { rewrite ctext_set, has_nl_app. cbn [has_nl]. rewrite !has_nl_app.
        rewrite flat_inline_nonl.
        - destruct r; reflexivity.
        - clear -HG Hfl Hin. induction body as [|[g n] t IH]; [constructor|]. destruct Hin as (Hc & _ & Hin').
          inversion HG; subst. inversion Hfl; subst. constructor; [|apply IH; assumption]. cbn [snd] in *.
          destruct (H1 Hc (ind + 2)) as [_ Hx]. apply Hx. assumption. }
      split; [|intros _; exact Hnn].
      rewrite canonical_set_inl; [|apply canon_inline_nonempty, Hb|exact Hnn].
      rewrite inline_ok_canon; [| exact Hin |].
      * destruct r; cbn [streq andb]; rewrite ?Ascii.eqb_refl; reflexivity.
      * eapply Forall_impl; [|exact HG]. intros [g n] Hn Hc. cbn [snd] in *. destruct (Hn Hc (ind + 2)) as [H1 _].
        split; [exact H1|rewrite is_cmt_canon; exact Hc].
  - (* list *)
    cbn [wfF] in Hwf. destruct Hwf as (Hall & _ & Hinl). apply wfF_children_list in Hall.
    assert (HG : Forall (fun gn => is_cmt (snd gn) = false -> good (snd gn)) body).
    { clear -IHb Hall. induction body as [|[g n] t IH]; [constructor|].
      inversion IHb; subst. inversion Hall; subst. constructor; [|apply IH; assumption]. cbn [snd] in *. intros Hc. apply H1; tauto. }
    destruct body as [|b0 body'].
    { cbn [canon]. split.
      - cbn [canonical]. destruct (has_empty_line cg); rewrite ?hel_lf_lf_sp; try apply streq_refl; reflexivity.
      - intros H. apply list_text_nonl in H. destruct H as [_ H].
        destruct (has_empty_line cg) eqn:E; [apply hel_has_nl in E; congruence|]. reflexivity. }
    set (body := b0 :: body') in *. assert (Hb : body <> []) by discriminate. clearbody body.
    rewrite (canon_list_eq body cg ind Hb).
    destruct (has_nl (ctext (CList body cg))) eqn:Hnl; cbn [negb].
    + split; [|discriminate].
      rewrite canonical_list_ml; [|apply canon_lines_nonempty, Hb|apply list_text_ml].
      rewrite lines_ok_canon; [|exact I|].
      * rewrite (blank_lf _ ind (blank_cases cg)). apply streq_refl.
      * eapply Forall_impl; [|exact HG]. intros [g n] Hn Hc. cbn [snd] in *. destruct (Hn Hc (ind + 2)) as [H1 _].
        split; [exact H1|]. split; [rewrite is_cmt_canon; exact Hc|apply is_bind_canon].
    + destruct (Hinl eq_refl) as [_ Hin]. destruct (list_text_nonl _ _ Hnl) as [Hfl _]. apply flat_nonl in Hfl.
      assert (Hnn : has_nl (ctext (CList (canon_inline (fun n => canon n ind) body) [" "])) = false).
      { rewrite ctext_list. cbn [has_nl]. rewrite !has_nl_app.
        rewrite flat_inline_nonl.
        - reflexivity.
        - clear -HG Hfl Hin. induction body as [|[g n] t IH]; [constructor|]. destruct Hin as (Hc & _ & Hin').
          inversion HG; subst. inversion Hfl; subst. constructor; [|apply IH; assumption]. cbn [snd] in *.
          destruct (H1 Hc ind) as [_ Hx]. apply Hx. assumption. }
      split; [|intros _; exact Hnn].
      rewrite canonical_list_inl; [|apply canon_inline_nonempty, Hb|exact Hnn].
      rewrite inline_ok_canon; [| exact Hin |].
      * reflexivity.
      * eapply Forall_impl; [|exact HG]. intros [g n] Hn Hc. cbn [snd] in *. destruct (Hn Hc ind) as [H1 _].
        split; [exact H1|rewrite is_cmt_canon; exact Hc].
Qed.
Print Assumptions canon_canonical.

(* C04 — an edit touches only the binding it addresses (model level: the printed view of the edit heap model).
   `view` is what AttributeSet.rebuild prints of the structure: names in attrpath form, order, nesting, value texts. *)
From Coq Require Import List Ascii String Bool Arith.
Import ListNotations. Open Scope string_scope.
From E Require Import EditModel EditProofs EditFrame EditLaws EditAppend EditClosed EditClosedOps.

(* overwriting an existing leaf: the new document is the old one rendered with the text owned by that leaf replaced;
   every other name, value, order and nesting (including the flattening of attrpath bindings) is the old one *)
Theorem C04_leaf : forall s segs l t0 t,
  find_leaf s SRoot segs = Some l -> val_of s l = VAt t0 -> hget (hp s) l <> None ->
  snd (m_set s segs (VAt t)) = Ok tt /\
  view (fst (m_set s segs (VAt t))) =
  view_value_g (override l t (fun _ x => x)) 1000 s None (VSet (rvals s) (rorder s) (rml s)).
Proof. exact EditFrame.C04_leaf. Qed.
Print Assumptions C04_leaf.

(* inserting a fresh key at the root: exactly one new entry, last; every existing entry prints as before — in every
   state reachable from a parsed document by any script of edits *)
Theorem C04_fresh_root_reachable : forall d s0 ops k t, parse_doc d = Ok s0 -> Forall atomic_op ops ->
  let s := erun s0 ops in
  (rvals s = [] -> rorder s = []) -> find_by_name s (rvals s) k = None ->
  view (set_setitem s SRoot k (VAt t)) = TS (items_of (view s) ++ [(k, TA t)]).
Proof. exact EditClosedOps.C04_fresh_root_reachable. Qed.
Print Assumptions C04_fresh_root_reachable.

(* non-vacuity: a parsed document that meets the hypotheses of the insertion theorem *)
Example C04_demo_fresh_root :
  match parse_doc demo_doc with
  | Ok s => ids_closedb s = true /\ find_by_name s (rvals s) (cs "zz") = None /\
            view (set_setitem s SRoot (cs "zz") (VAt (cs "9"))) = TS (items_of (view s) ++ [(cs "zz", TA (cs "9"))])
  | Err _ => False end.
Proof. exact EditAppend.demo_fresh_root. Qed.
Print Assumptions C04_demo_fresh_root.

(* removal: `rm k` of a plain top-level binding (set whose bindings all have single-segment names: plain_order) deletes exactly the entries
   printed for that binding; everything before and after it prints as before, in order, with its nested contents *)
From E Require Import EditRemove.
Theorem C04_rm_plain_root : forall s k i, plain_order s -> find_by_name s (rvals s) k = Some i -> find_root s (rvals s) k = None ->
  exists l1 l2,
    rvals s = (l1 ++ i :: l2)%list /\ find_by_name s l1 k = None /\
    snd (m_rm s [k]) = Ok tt /\
    items_of (view s) =
      (flat_map (entry_items (fun _ t => t) 999 s) (map OPlain l1) ++ entry_items (fun _ t => t) 999 s (OPlain i) ++
       flat_map (entry_items (fun _ t => t) 999 s) (map OPlain l2))%list /\
    items_of (view (fst (m_rm s [k]))) =
      (flat_map (entry_items (fun _ t => t) 999 s) (map OPlain l1) ++ flat_map (entry_items (fun _ t => t) 999 s) (map OPlain l2))%list.
Proof. exact EditRemove.rm_plain_root. Qed.
Print Assumptions C04_rm_plain_root.
(* non-vacuity: { a = 1; b = { c = 2; }; d = 3; } meets the hypotheses for k = b *)
Definition rm_doc : idoc := ISet true [([cs "a"], IAtom (cs "1")); ([cs "b"], ISet true [([cs "c"], IAtom (cs "2"))]); ([cs "d"], IAtom (cs "3"))].
Example C04_rm_nonvacuous :
  match parse_doc rm_doc with
  | Ok s => plain_order s /\ (exists i, find_by_name s (rvals s) (cs "b") = Some i) /\ find_root s (rvals s) (cs "b") = None /\
            view (fst (m_rm s [cs "b"])) = TS [(cs "a", TA (cs "1")); (cs "d", TA (cs "3"))]
  | Err _ => False end.
Proof. vm_compute. repeat split; try reflexivity; [right; reflexivity|eexists; reflexivity]. Qed.
Print Assumptions C04_rm_nonvacuous.

(* scoped edits, over the definitions REGENERATED on every run from cli/manipulations.py (tools/layers2v.py): a scoped
   edit rewrites one collected let layer and writes all layers back; every other layer keeps all its fields — bindings,
   trivia before and after the body, render order, comment after `let` — and its position *)
From L Require Import LayerRec.
From Dyn Require Import LayersGen LayersGenProps.
Theorem C04_scoped_frame : forall e i f, wf e -> (forall l, nonempty (l_scope l) = true -> nonempty (l_scope (f l)) = true) ->
  collect (write (upd i f (collect e))) = upd i f (collect e) /\
  forall j, (j <> i -> nth_error (collect (write (upd i f (collect e)))) j = nth_error (collect e) j)%nat.
Proof. exact LayersGenProps.edit_one_layer. Qed.
Print Assumptions C04_scoped_frame.

(* which set an edit touches: the regenerated wrapper traversal (tools/target2v.py, Dyn/TargetProps.v) returns an attribute set and nothing else, enters no
   node twice, and mutates nothing but resolution contexts (the state of the generated function is the visited list and the context store) *)
From Dyn Require Import TargetGen TargetProps.
Close Scope string_scope. Open Scope list_scope.
Theorem C04_target_is_a_set : forall (w : world) fuel t sc s r s', target w fuel t sc s = (RVal r, s') -> w_cls w r = CSet.
Proof. exact target_is_a_set. Qed.
Print Assumptions C04_target_is_a_set.
Theorem C04_target_visits_once : forall (w : world) fuel t sc s r s',
  target w fuel t sc s = (r, s') -> exists l, fst s' = l ++ fst s /\ (NoDup (fst s) -> NoDup (fst s')).
Proof. exact target_visits_once. Qed.
Print Assumptions C04_target_visits_once.

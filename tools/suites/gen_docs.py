"""Seeded generators of canonical (RFC-0166 style) documents of fragment F0 used by several suites."""
import random
IDS = ['a', 'b', 'foo', 'bar_1', "x'", 'pname', 'version', 'meta', 'lib']
class DocGen:
    def __init__(self, R, refs=True, families=0.25):
        self.R, self.refs, self.families = R, refs, families
    def ident(self): return self.R.choice(IDS)
    def atom(self):
        R = self.R
        k = R.randrange(7)
        if k == 2 and not self.refs: k = 0           # bare identifiers as values trigger reference redirection (C11)
        return [lambda: str(R.randrange(1000)), lambda: '"s%d"' % R.randrange(9), self.ident, lambda: 'true', lambda: 'null',
                lambda: './p/%s.nix' % self.ident().replace("'", ''), lambda: 'pkgs.' + self.ident()][k]()
    def comment(self, ind): return ' ' * ind + '# ' + self.R.choice(['note', 'TODO: x', 'c c c'])
    def value(self, ind, depth):
        R = self.R; k = R.randrange(10)
        if depth <= 0 or k < 4: return self.atom()
        if k < 6: return self.mset(ind, depth - 1)
        if k < 8: return self.mlist(ind, depth - 1)
        if k == 8: return '{ %s = %s; }' % (self.ident(), self.atom())
        return '[ %s ]' % self.atom() if R.random() < 0.5 else '[ ]' if R.random() < 0.5 else '{ }'
    def bindings(self, ind, depth, n):
        R = self.R; lines = []; names = set()
        top = not getattr(self, 'attrpath_top_only', False) or ind == 2
        fam = R.random() < self.families and top
        for i in range(n):
            if i > 0 and R.random() < 0.2: lines.append('')
            if R.random() < 0.25: lines.append(self.comment(ind))
            nm = self.ident()
            while nm in names: nm = nm + '_'
            names.add(nm)
            qn = getattr(self, 'quoted_names', 0)
            if qn and R.random() < qn:          # names that must be written quoted (space, dot, leading digit, keyword)
                nm = '"%s"' % R.choice(['sp ace', 'do.t', '1st', 'with', 'a-b c'])
                while nm in names: nm = nm[:-1] + ' 2"'          # stays a name that needs its quotes (a quoted spelling of a plain identifier is finding F-13's domain)
                names.add(nm)
            if R.random() < 0.15 and top: nm = nm + '.' + self.ident()
            l = ' ' * ind + nm + ' = ' + self.value(ind, depth) + ';'
            if R.random() < 0.2: l += ' # eol'
            lines.append(l)
        if fam:      # an attrpath family with equal leaves and values, as in NixOS modules
            root = R.choice(['services', 'programs']); mids = R.sample(['nginx', 'openssh', 'git', 'zsh'], R.randint(2, 3))
            if root not in names:
                if R.random() < 0.5:
                    for m in mids: lines.append(' ' * ind + '%s.%s.enable = true;' % (root, m))
                else:                 # two-segment siblings sharing a prefix
                    for j, m in enumerate(mids): lines.append(' ' * ind + '%s.%s = %d;' % (root, m, j + 1))
        if R.random() < 0.15: lines.append(self.comment(ind))
        return lines
    def mset(self, ind, depth):
        return '{\n' + '\n'.join(self.bindings(ind + 2, depth, self.R.randrange(1, 4))) + '\n' + ' ' * ind + '}'
    def mlist(self, ind, depth):
        R = self.R; lines = []
        for i in range(R.randrange(1, 4)):
            if i > 0 and R.random() < 0.15: lines.append('')
            if R.random() < 0.2: lines.append(self.comment(ind + 2))
            k = R.randrange(6)
            if depth > 0 and k == 0: v = self.mset(ind + 2, depth - 1)
            elif depth > 0 and k == 1: v = self.mlist(ind + 2, depth - 1)
            else: v = self.atom()
            l = ' ' * (ind + 2) + v
            if R.random() < 0.15: l += ' # eol'
            lines.append(l)
        return '[\n' + '\n'.join(lines) + '\n' + ' ' * ind + ']'
    def doc(self):
        s = ''
        if self.R.random() < 0.3: s += '# header\n' + ('\n' if self.R.random() < 0.5 else '')
        return s + self.mset(0, 3) + '\n'


class DocGen2(DocGen):
    """richer F0 generator: opaque atoms (interpolated / indented strings, floats, zero-padded integers, search and
    home paths), quoted names, `rec`, comment-only and blank-only containers, all single-line comment spellings,
    and every final-newline situation"""
    def atom(self):
        R = self.R
        if R.random() < 0.12:
            return R.choice(['"a ${toString x} b"', "''\n      multi\n      line ${x}\n    ''", '0042', '1.5', '"q\\"uote"', '<nixpkgs>', '~/x', '/abs/p'])
        return DocGen.atom(self)
    def comment(self, ind):
        k = self.R.randrange(10)
        if k < 6: return ' ' * ind + '# ' + self.R.choice(['note', 'TODO: x', 'c c c'])
        if k == 6: return ' ' * ind + '#nospace'
        if k == 7: return ' ' * ind + '#'
        if k == 8: return ' ' * ind + '/* block */'
        return ' ' * ind + '/** doc */'
    def value(self, ind, depth):
        R = self.R; k = R.randrange(10)
        if depth <= 0 or k < 4: return self.atom()
        if k < 6: return self.mset(ind, depth - 1)
        if k < 8: return self.mlist(ind, depth - 1)
        if k == 8:
            if R.random() < 0.5: return '{ %s = %s; }' % (self.ident(), self.atom())
            return R.choice(['rec ', '']) + '{ %s = %s; %s_ = [ %s %s ]; }' % (self.ident(), self.atom(), self.ident(), self.atom(), self.atom())
        return '[ %s ]' % self.atom() if R.random() < 0.5 else '[ ]' if R.random() < 0.5 else '{ }'
    def bindings(self, ind, depth, n):
        R = self.R; lines = []; names = set()
        for i in range(n):
            if i > 0 and R.random() < 0.2: lines.append('')
            if R.random() < 0.25: lines.append(self.comment(ind))
            nm = self.ident()
            while nm in names: nm = nm + '_'
            if R.random() < 0.1: nm = '"q %s"' % nm.replace("'", '')
            while nm in names: nm = nm[:-1] + '_"' if nm.endswith('"') else nm + '_'
            names.add(nm)
            if R.random() < 0.15: nm = nm + '.' + self.ident()
            l = ' ' * ind + nm + ' = ' + self.value(ind, depth) + ';'
            if R.random() < 0.2: l += ' # eol'
            lines.append(l)
        if R.random() < 0.15: lines.append(self.comment(ind))
        return lines
    def mset(self, ind, depth):
        R = self.R
        if R.random() < 0.08: return R.choice(['{\n\n' + ' ' * ind + '}', '{\n' + self.comment(ind + 2) + '\n' + ' ' * ind + '}'])
        return R.choice(['', '', '', 'rec ']) + '{\n' + '\n'.join(self.bindings(ind + 2, depth, R.randrange(1, 4))) + '\n' + ' ' * ind + '}'
    def doc(self):
        R = self.R; s = ''
        if R.random() < 0.3: s += '# header\n' + ('\n' if R.random() < 0.5 else '')
        s += self.mset(0, 3)
        k = R.randrange(6)
        if k == 0: s += ' # eol at end\n'
        elif k == 1: s += '\n# trailing\n'
        elif k == 2: s += '\n\n# trailing after blank\n# more\n'
        elif k == 3: s += ''
        else: s += '\n'
        return s

OPAQ = ('string_expression', 'indented_string_expression', 'comment', 'path_expression', 'spath_expression', 'hpath_expression', 'select_expression', 'attrpath')
WS = [' ', '  ', '\t', ' \t ', '\n', '\n\n', '\n  ', '\n      ', ' \n ', '\n\n\n   ', '   \n\t\n ', '\n\t']
def perturb(R, s, parse_to_ast):
    """rewrite the whitespace gaps between tokens arbitrarily (line comments stay followed by a newline)"""
    def leaves(n, o):
        if n.type in OPAQ or n.child_count == 0:
            if n.end_byte > n.start_byte: o.append(n)
            return
        for c in n.children: leaves(c, o)
    root = parse_to_ast(s); o = []; leaves(root, o); b = s.encode(); res = ''; pos = 0
    for i, n in enumerate(o):
        g = b[pos:n.start_byte].decode()
        if i > 0:
            if o[i - 1].type == 'comment' and o[i - 1].text.startswith(b'#'): g = R.choice(['\n', '\n\n', '\n   ', '\n\n\n\t'])
            elif n.type == 'comment': g = g if R.random() < 0.5 else (R.choice(WS) if '\n' in g else R.choice([' ', '   ', '\t']))
            elif R.random() < 0.5: g = R.choice(WS) if g else R.choice(['', ' ', '\n'])
        res += g + n.text.decode(); pos = n.end_byte
    return res + b[pos:].decode()


class PkgGen:
    """canonical package-file idiom: header comment, lambda head (inline / multi-line formals, @-pattern), let block,
    assert, call head with (rec) attribute set, attrpaths, inherit, lists, indented strings, with/if values, comments"""
    def __init__(self, R): self.R = R
    PIDS = ['lib','stdenv','fetchurl','pkgs','python3','openssl','zlib','cmake','version','pname','src','meta','hash','url']
    def ident(self): return self.R.choice(self.PIDS)
    def s(self, n): return ' '*n
    def atom(self):
        return self.R.choice([lambda: '"%s"'%self.R.choice(['1.2.3','demo','sha256-AAAA=','https://x/${pname}-${version}.tar.gz']),
                         lambda: str(self.R.randrange(100)), self.ident, lambda: 'true', lambda:'false', lambda:'null',
                         lambda: 'lib.'+self.R.choice(['licenses.mit','platforms.unix','maintainers.hoh']), lambda: './patches/fix.patch',
                         lambda: 'pkgs.%s.%s'%(self.ident(),self.ident())])()
    def comment(self, ind): return self.s(ind)+'# '+self.R.choice(['note','TODO: bump','see upstream'])
    def simple_list(self, ind):
        n=self.R.randrange(0,4)
        if n==0: return '[ ]'
        if n==1 and self.R.random()<0.6: return '[ %s ]'%self.atom()
        lines=[]
        for i in range(n):
            if self.R.random()<0.15: lines.append(self.comment(ind+2))
            l=self.s(ind+2)+self.atom()
            if self.R.random()<0.1: l+=' # why'
            lines.append(l)
        return '[\n'+'\n'.join(lines)+'\n'+self.s(ind)+']'
    def istring(self, ind):
        return "''\n"+self.s(ind+2)+"echo hi\n"+self.s(ind+2)+"make ${lib.concatStringsSep \" \" flags}\n"+self.s(ind)+"''"
    def value(self, ind, depth):
        k=self.R.randrange(14)
        if depth<=0 or k<4: return self.atom()
        if k<6: return self.simple_list(ind)
        if k==6: return self.istring(ind)
        if k==7: return 'with lib; ' + self.simple_list(ind)
        if k==8: return 'with lib; ' + self.mset(ind, depth-1, max_n=3)
        if k==9: return 'if %s then %s else %s'%(self.ident(), self.atom(), self.atom())
        if k==10: return '%s {\n%s\n%s}'%(self.R.choice(['fetchurl','fetchFromGitHub','lib.mkIf cond']), '\n'.join(self.bindings(ind+2, depth-1, self.R.randrange(1,4))), self.s(ind))
        if k==11: return self.mset(ind, depth-1)
        if k==12: return '%s %s'%(self.ident(), self.atom())
        return '{ %s = %s; }'%(self.ident(), self.atom())
    def bindings(self, ind, depth, n, allow_inherit=True):
        lines=[]; names=set()
        for i in range(n):
            if i>0 and self.R.random()<0.25: lines.append('')
            if self.R.random()<0.2: lines.append(self.comment(ind))
            if allow_inherit and self.R.random()<0.15:
                if self.R.random()<0.5: lines.append(self.s(ind)+'inherit %s;'%' '.join(self.R.sample(self.PIDS, self.R.randrange(1,4))))
                else: lines.append(self.s(ind)+'inherit (%s) %s;'%(self.ident(), ' '.join(self.R.sample(self.PIDS, self.R.randrange(1,3)))))
                continue
            nm=self.ident()
            while nm in names: nm+='_'
            names.add(nm)
            if self.R.random()<0.12: nm+= '.'+self.R.choice(['a','b','c'])
            l=self.s(ind)+nm+' = '+self.value(ind,depth)+';'
            if self.R.random()<0.12: l+=' # eol'
            lines.append(l)
        return lines
    def mset(self, ind, depth, max_n=5):
        return self.R.choice(['','','','rec '])+'{\n'+'\n'.join(self.bindings(ind+2, depth, self.R.randrange(1,max_n)))+'\n'+self.s(ind)+'}'
    def formals(self):
        names=self.R.sample(self.PIDS, self.R.randrange(1,6))
        k=self.R.randrange(4)
        if k==0 and len(names)<=2:  # inline
            return '{ '+', '.join(names)+(', ...' if self.R.random()<0.4 else '')+' }:'
        # multi-line, must end with ... to stay parseable by the installed grammar (no trailing comma)
        items=[]
        for n in names:
            it = n + (' ? '+self.R.choice(['null','false','"x"','{ }','[ ]']) if self.R.random()<0.25 else '')
            items.append('  '+it+',')
        items.append('  ...')
        head='{\n'+'\n'.join(items)+'\n}'
        if self.R.random()<0.15: head += '@args'
        return head+':'
    def doc(self):
        out=''
        if self.R.random()<0.3: out+='# SPDX header\n'+('\n' if self.R.random()<0.6 else '')
        k=self.R.randrange(5)
        body_call = self.R.choice(['stdenv.mkDerivation','python3.pkgs.buildPythonPackage','mkShell'])
        rec = self.R.choice(['',' rec'])
        main = body_call+rec+' {\n'+'\n'.join(self.bindings(2,2,self.R.randrange(2,7)))+'\n}'
        if k==0: out+=main
        else:
            out+=self.formals()+'\n'
            if k>=3:
                out+='\nlet\n'+'\n'.join(self.bindings(2,1,self.R.randrange(1,4)))+'\nin\n' if self.R.random()<0.7 else 'let\n'+'\n'.join(self.bindings(2,1,self.R.randrange(1,4)))+'\nin\n'
            if k==2: out+='\n'
            if k==4 and self.R.random()<0.5: out+='assert %s != null;\n'%self.ident() + self.R.choice(['', '\n', '# why\n', '\n# why\n'])
            out+=main
        return out+'\n'


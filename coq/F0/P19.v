(* File level of C01/C03 on F0: the canonicalised file has the same interleaved sequence of code tokens and
   comments as the input file, up to integer spelling (leading zeros) and comment re-spelling (padding). *)
From Coq Require Import List Ascii String Bool Arith Lia.
Import ListNotations.
From F0 Require Import F0s Specs P1 P2 P3g P5 P6 P7 P8 P9 P10 P11 Canon P12 P13 Canonize P14 P15.

Definition flexseq (f : cfile) : list lex := lexflat (f_children f).

Lemma lexseq_ccmt raw : lexseq (ccmt raw) = map nrm (lexseq (CCmt raw)).
Proof. reflexivity. Qed.
Lemma is_cmt_shape n : is_cmt n = true -> exists raw, n = CCmt raw.
Proof. destruct n; try discriminate. intros _. eexists; reflexivity. Qed.

Theorem flexseq_canon f : flexseq (canon_file f) = map nrm (flexseq f).
Proof.
  unfold flexseq, canon_file. destruct (f_children f) as [|[g0 c0] rest]; [reflexivity|].
  cbn [f_children lexflat]. rewrite map_app. f_equal.
  - destruct (is_cmt c0) eqn:E0; [|apply lexseq_canon].
    destruct (is_cmt_shape c0 E0) as [raw ->]. reflexivity.
  - generalize (negb (is_cmt c0)). induction rest as [|[g n] t IH]; intros seen; [reflexivity|].
    destruct (is_cmt n) eqn:En.
    + destruct (is_cmt_shape n En) as [raw ->]. cbn [lexflat]. rewrite IH. reflexivity.
    + cbn [lexflat]. rewrite map_app, IH, lexseq_canon. reflexivity.
Qed.
Print Assumptions flexseq_canon.

(* code tokens only / comments only, as corollaries *)
Definition is_tok (x : lex) : bool := match x with Tok _ _ => true | Cm _ => false end.
Lemma nrm_kind x : is_tok (nrm x) = is_tok x.
Proof. destruct x; reflexivity. Qed.
Lemma filter_map_nrm (p : lex -> bool) l : (forall x, p (nrm x) = p x) -> filter p (map nrm l) = map nrm (filter p l).
Proof.
  intros H. induction l as [|x l IH]; [reflexivity|]. cbn [map filter]. rewrite H. destruct (p x); cbn [map]; now rewrite IH.
Qed.
Corollary code_tokens_canon f : filter is_tok (flexseq (canon_file f)) = map nrm (filter is_tok (flexseq f)).
Proof. rewrite flexseq_canon. apply filter_map_nrm, nrm_kind. Qed.
Corollary comments_canon f :
  filter (fun x => negb (is_tok x)) (flexseq (canon_file f)) = map nrm (filter (fun x => negb (is_tok x)) (flexseq f)).
Proof. rewrite flexseq_canon. apply filter_map_nrm. intros x. now rewrite nrm_kind. Qed.
Print Assumptions code_tokens_canon.

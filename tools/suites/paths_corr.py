"""C17 correspondence + oracle: import chains over generated directory layouts.  The implementation follows
parse_file(entry)["next"]...["next"]["id"] under a given working directory and spelling of the entry path; the model
(Small.PathFS.c_follow) is evaluated on the same layout inside Coq; the oracle states the property directly with
os.path.realpath.   usage: paths_corr.py SEED N OUTDIR PREFIX"""
import json, os, random, shutil, sys, tempfile
from common import write_shards
seed, N, outdir, prefix = int(sys.argv[1]), int(sys.argv[2]), sys.argv[3], sys.argv[4]
from nix_manipulator.parser import parse_file
R = random.Random(seed)
def q(s): return '(list_ascii_of_string "%s")' % s.replace('"', '""')
T = os.path.realpath(tempfile.mkdtemp(prefix='nima-paths-'))
home = os.getcwd()
rows, viol, keys, samples = [], [], {}, []
def rel(frm, to):
    """a relative spelling of directory `to` seen from directory `frm` (both tuples), with optional noise"""
    i = 0
    while i < len(frm) and i < len(to) and frm[i] == to[i]: i += 1
    parts = ['..'] * (len(frm) - i) + list(to[i:])
    if R.random() < 0.3 and to[i:]: parts = parts + ['..', to[-1]]          # a/../a noise
    return parts
try:
    nlayouts = max(1, N // 12)
    for L in range(nlayouts):
        base = os.path.join(T, 'L%d' % L); os.makedirs(base)
        dirs = [()]
        for _ in range(R.randint(1, 6)):
            d = R.choice(dirs) + (R.choice('abc'),)
            if d not in dirs and len(d) <= 3: dirs.append(d)
        for d in dirs: os.makedirs(os.path.join(base, *d), exist_ok=True)
        nf = R.randint(2, 6)
        files = [(R.choice(dirs), 'f%d.nix' % i) for i in range(nf)]
        content = {}
        for i, (d, n) in enumerate(files):
            r = R.random()
            if r < 0.08: arg, text = ('AAngle', None), '<nixpkgs>'
            elif r < 0.16: arg, text = ('ANonPath', None), R.choice(['5', '"./f0.nix"', '{ }', 'x'])
            else:
                td, tn = R.choice(files)
                if R.random() < 0.12: tn = 'missing.nix'
                if R.random() < 0.12: lit = os.path.join(base, *td, tn)                       # absolute
                else:
                    lit = '/'.join(rel(d, td) + [tn])
                    bare_ok = '/' in lit and not lit.startswith('..')            # `sub/f.nix` is a path literal, `f.nix` alone is not
                    if not (bare_ok and R.random() < 0.4) and (not lit.startswith('..') or R.random() < 0.3): lit = './' + lit
                arg, text = ('ALit', lit), (lit if R.random() < 0.85 else '(%s)' % lit)
            content[(d, n)] = (i, arg)
            # how the argument follows the keyword: a space, several, a tab, a line break, a comment, or nothing before a parenthesis
            sep = R.choice([' ', ' ', ' ', ' ', '  ', '\t', '\n    ', ' /* c */ ', '\n  # c\n  '])
            if text.startswith('(') and R.random() < 0.5: sep = ''
            open(os.path.join(base, *d, n), 'w').write('{ id = "id%d"; next = import%s%s; }\n' % (i, sep, text))
        bt = tuple(base.strip('/').split('/'))
        mdirs = [bt[:k] for k in range(len(bt) + 1)] + [bt + d for d in dirs if d]
        fs = ('{| dirs := [%s]; files := [%s] |}' % (
              '; '.join('[' + '; '.join(q(x) for x in d) + ']' for d in mdirs),
              '; '.join('([%s], %s, (%d, %s))' % ('; '.join(q(x) for x in bt + d), q(n), i,
                        ('ALit ' + q(a[1])) if a[0] == 'ALit' else a[0]) for (d, n), (i, a) in content.items())))
        for _ in range(12):
            ed, en = R.choice(files); cwd = R.choice(dirs); k = R.randint(0, 4)
            style = R.choice(['abs', 'rel', 'rel', 'dot'])
            if style == 'abs': entry = os.path.join(base, *ed, en)
            else:
                entry = '/'.join(rel(cwd, ed) + [en])
                if style == 'dot': entry = './' + entry
            def run(cwd_, entry_, then=None):
                os.chdir(os.path.join(base, *cwd_))
                try:
                    v = parse_file(entry_)
                    if then is not None: os.chdir(os.path.join(base, *then))     # imports are followed lazily: the directory in force at look-up time must not matter either
                    for _ in range(k): v = v['next']
                    r = v['id']
                    return 'Reached %d' % int(str(getattr(r, 'value', r)).strip('"')[2:])
                except OSError: return 'OSError'
                except ValueError: return 'ValueError'
                except TypeError: return 'TypeError'
                except Exception as e: return 'Other:' + type(e).__name__
                finally: os.chdir(home)
            got = run(cwd, entry)
            kk = got.split()[0] + '/k%d/%s' % (k, style); keys[kk] = keys.get(kk, 0) + 1
            # ---- oracle: ground truth with the OS's own resolution ----
            cur = os.path.realpath(os.path.join(base, *ed, en)); want = None
            for hop in range(k + 1):
                key = None
                for (d, n), (i, a) in content.items():
                    if os.path.join(base, *d, n) == cur: key = (d, n)
                if key is None or not os.path.isfile(cur): want = 'OSError'; break
                i, a = content[key]
                if hop == k: want = 'Reached %d' % i; break
                if a[0] == 'AAngle': want = 'ValueError'; break
                if a[0] == 'ANonPath': want = 'TypeError'; break
                nxt = a[1] if a[1].startswith('/') else os.path.join(os.path.dirname(cur), a[1])
                if not os.path.exists(nxt): want = 'OSError'; break
                cur = os.path.realpath(nxt)
            case = {'layout': {'/'.join(d + (n,)): (a[1].replace(base, '<T>') if a[0] == 'ALit' else a[0]) for (d, n), (i, a) in content.items()},
                    'cwd': '/'.join(cwd), 'entry': entry.replace(base, '<T>'), 'hops': k, 'got': got, 'expected': want}
            if got != want: viol.append(dict(case, what='import chain gives %s, the file located relative to the importing file gives %s' % (got, want)))
            # a second working directory / spelling of the same entry file must give the same result
            cwd2 = R.choice(dirs); entry2 = '/'.join(rel(cwd2, ed) + [en]); got2 = run(cwd2, entry2)
            if got2 != got: viol.append(dict(case, what='result depends on cwd/spelling: %s from %s vs %s from %s' % (got, case['cwd'], got2, '/'.join(cwd2))))
            # thirteenth round: the working directory changes between parsing the entry file and following its imports
            cwd3 = R.choice(dirs); got3 = run(cwd, entry, then=cwd3); kk = 'chdir-before-lookup/' + style; keys[kk] = keys.get(kk, 0) + 1
            if got3 != got: viol.append(dict(case, what='result depends on the working directory at look-up time: %s, but %s after chdir to %s between parse_file and the look-up' % (got, got3, '/'.join(cwd3))))
            if len(samples) < 3: samples.append(case)
            rows.append('(%s, %d, [%s], %s, %s)' % (fs, k, '; '.join(q(x) for x in bt + cwd), q(entry), got if not got.startswith('Other') else 'OSError'))
    # ---- directed (eighth round): `..` across a symlinked directory and through a directory that does not exist — the operating system decides,
    # never a lexical normalisation (oracle only: the Coq model has no symlinks)
    sb = os.path.join(T, 'sym'); os.makedirs(os.path.join(sb, 'real', 'deep')); os.makedirs(os.path.join(sb, 'real', 'lib')); os.makedirs(os.path.join(sb, 'lib')); os.makedirs(os.path.join(sb, 'other'))
    W = lambda rel_, txt: open(os.path.join(sb, rel_), 'w').write(txt)
    W('real/deep/a.nix', '{ id = "id0"; next = import ../b.nix; }\n'); W('real/b.nix', '{ id = "id1"; next = import ./lib/d.nix; }\n')
    W('real/lib/d.nix', '{ id = "id2"; next = import ./nope/../d.nix; }\n'); W('b.nix', '{ id = "id91"; next = import ./lib/d.nix; }\n'); W('lib/d.nix', '{ id = "id92"; next = import ./d.nix; }\n')
    W('real/lib/e.nix', '{ id = "id3"; next = import ./d.nix/../d.nix; }\n')
    os.symlink(os.path.join(sb, 'real', 'deep'), os.path.join(sb, 'link'))
    def follow(cwd_, entry_, k):
        os.chdir(os.path.join(sb, cwd_))
        try:
            v = parse_file(entry_)
            for _ in range(k): v = v['next']
            r = v['id']; return 'Reached %d' % int(str(getattr(r, 'value', r)).strip('"')[2:])
        except OSError: return 'OSError'
        except Exception as e: return 'Other:' + type(e).__name__
        finally: os.chdir(home)
    # a directory literally named `~` (ninth round): a path is a path, never a home-directory abbreviation; $HOME points at decoys
    os.makedirs(os.path.join(sb, '~', 'sub')); os.makedirs(os.path.join(sb, 'home'))
    W('~/main.nix', '{ id = "id40"; next = import ./set.nix; }\n'); W('~/set.nix', '{ id = "id41"; next = import ./sub/b.nix; }\n'); W('~/sub/b.nix', '{ id = "id42"; next = import ../top.nix; }\n'); W('~/top.nix', '{ id = "id43"; next = import ./none.nix; }\n')
    W('home/main.nix', '{ id = "id95"; next = import ./set.nix; }\n'); W('home/set.nix', '{ id = "id96"; next = import ./set.nix; }\n'); W('home/none.nix', '{ id = "id97"; next = import ./set.nix; }\n')
    old_home = os.environ.get('HOME'); os.environ['HOME'] = os.path.join(sb, 'home')
    for cwd_, entry_, k, want in [('', '~/main.nix', 0, 'Reached 40'), ('', '~/main.nix', 1, 'Reached 41'), ('', '~/main.nix', 3, 'Reached 43'), ('', '~/main.nix', 4, 'OSError'), ('', './~/main.nix', 2, 'Reached 42'),
                                  ('~', 'main.nix', 1, 'Reached 41'), ('', os.path.join(sb, '~', 'main.nix'), 3, 'Reached 43'),
                                  ('', 'link/a.nix', 1, 'Reached 1'), ('', 'link/a.nix', 2, 'Reached 2'), ('', 'link/a.nix', 3, 'OSError'), ('other', '../link/a.nix', 2, 'Reached 2'),
                                  ('', os.path.join(sb, 'link', 'a.nix'), 1, 'Reached 1'), ('', 'real/deep/a.nix', 2, 'Reached 2'), ('real/lib', 'e.nix', 1, 'OSError'), ('', 'real/lib/d.nix', 1, 'OSError')]:
        got = follow(cwd_, entry_, k); kk = 'symlink-dotdot/' + got.split()[0]; keys[kk] = keys.get(kk, 0) + 1
        if got != want: viol.append({'layout': 'sym: link -> real/deep; real/deep/a.nix imports ../b.nix; real/b.nix imports ./lib/d.nix; real/lib/d.nix imports ./nope/../d.nix; decoys b.nix, lib/d.nix beside link', 'cwd': cwd_, 'entry': entry_.replace(sb, '<T>/sym'), 'hops': k, 'got': got, 'expected': want,
                                     'what': 'import chain gives %s, the operating system\'s resolution relative to the importing file gives %s' % (got, want)})
finally:
    os.chdir(home); shutil.rmtree(T, ignore_errors=True)
    if 'old_home' in dir():
        if old_home is None: os.environ.pop('HOME', None)
        else: os.environ['HOME'] = old_home
HDR = ('From Coq Require Import List Ascii String Bool Arith. Import ListNotations. Open Scope string_scope.\n'
       'From Small Require Import PathRes PathFS.\n'
       'Definition T : Type := (fsys * nat * cdir * list ascii * outcome)%type.\n'
       'Definition out_eqb (a b : outcome) : bool := match a, b with Reached i, Reached j => Nat.eqb i j | OSError, OSError | ValueError, ValueError | TypeError, TypeError => true | _, _ => false end.\n')
OK = "Definition ok (t : T) : bool := let '(f, k, cwd, entry, o) := t in out_eqb (c_follow f k cwd entry) o.\n"
write_shards(outdir, prefix, HDR, 'T', OK, rows, 8)
json.dump({'stats': {'layouts': nlayouts, 'chains': len(rows), 'distribution': keys}, 'keys': sorted(keys), 'distinct_count': len(set(rows)),
           'rule': 'generated directory trees (depth<=3) with 2-6 files importing each other by relative (./, ../, a/../a noise), absolute, parenthesised, missing, angle-bracket and non-path arguments; entry spelled absolutely or relatively from a random cwd; 0-4 hops',
           'samples': samples, 'violations': viol[:5], 'n_violations': len(viol)}, open(os.path.join(outdir, prefix + '_summary.json'), 'w'))
print(len(rows), len(viol))

(* Proof spike, part 18: well-formedness is decidable — an evaluable checker with a soundness lemma, so that
   every theorem of the spike applies to each concrete converted file the harness produces (non-vacuity). *)
From Coq Require Import List Ascii String Bool Arith Lia.
Import ListNotations.
From F0 Require Import F0s Specs P1 P2 P3g P5 P6 P7 P8 P9 P10 P11 Canon P12 P13 Canonize P14 P15 P16a P16 P17.
Open Scope char_scope.

Lemma ends_nl_last x c : ends_nl (x ++ [c]) = (c =c LF).
Proof. unfold ends_nl. rewrite rev_app_distr. reflexivity. Qed.
Lemma ends_nl_nonl x : has_nl x = false -> ends_nl x = false.
Proof.
  destruct x as [|a x'] using rev_ind; [reflexivity|]. intros H. rewrite ends_nl_last.
  rewrite has_nl_app in H. apply orb_false_iff in H. destruct H as [_ H]. cbn [has_nl] in H. now rewrite orb_false_r in H.
Qed.
Lemma has_nl_skipn k : forall x, has_nl x = false -> has_nl (skipn k x) = false.
Proof.
  induction k as [|k IH]; intros x H; [exact H|]. destruct x as [|a x']; [reflexivity|]. cbn [skipn]. apply IH.
  cbn [has_nl] in H. apply orb_false_iff in H. apply H.
Qed.

Lemma rb_ok raw : has_nl raw = false -> forall inl i, rb (cfc raw) inl i <> [] /\ ends_nl (rb (cfc raw) inl i) = false.
Proof.
  intros Hnl inl i. rewrite cfc_eq. destruct (starts (s "/*") raw).
  { destruct (starts (s "/**") raw); unfold rb, comment_rebuild; cbn [ck ctxt cinline]; set (k := if inl then 0 else i).
    - split; [intros H0; apply app_eq_nil in H0; destruct H0 as [_ H0]; discriminate|].
      match goal with |- ends_nl (sp k ++ s "/** " ++ ?x ++ s " */") = false =>
        change (s "/** " ++ x ++ s " */") with ("/" :: "*" :: "*" :: " " :: x ++ [" "; "*"] ++ ["/"]); rewrite (app_assoc x) end.
      rewrite !app_comm_cons. rewrite (app_assoc (sp k)). apply ends_nl_last.
    - split; [intros H0; apply app_eq_nil in H0; destruct H0 as [_ H0]; discriminate|].
      match goal with |- ends_nl (sp k ++ s "/* " ++ ?x ++ s " */") = false =>
        change (s "/* " ++ x ++ s " */") with ("/" :: "*" :: " " :: x ++ [" "; "*"] ++ ["/"]); rewrite (app_assoc x) end.
      rewrite !app_comm_cons. rewrite (app_assoc (sp k)). apply ends_nl_last. }
  assert (Hline : forall c, ck c = KLine -> has_nl (comment_str c) = false -> comment_str c <> [] ->
            rb c inl i <> [] /\ ends_nl (rb c inl i) = false).
  { intros c Hk Hn Hne. unfold rb, comment_rebuild. cbn [ck cinline]. rewrite Hk.
    assert (E : comment_str {| ck := KLine; ctxt := ctxt c; cspace := cspace c; cshebang := cshebang c; cinline := inl |} = comment_str c) by reflexivity.
    rewrite E. split.
    - intros H0. apply app_eq_nil in H0. destruct H0 as [_ H0]. contradiction.
    - apply ends_nl_nonl. rewrite has_nl_app, has_nl_sp, Hn. reflexivity. }
  destruct (starts (s "#!") raw).
  { apply Hline; [reflexivity| |discriminate]. unfold comment_str. cbn [cshebang ctxt has_nl].
    change ("#" =c LF) with false. change ("!" =c LF) with false. cbn [orb]. apply has_nl_skipn, Hnl. }
  pose proof (has_nl_skipn 1 raw Hnl) as H1.
  destruct (skipn 1 raw) as [|a t']; [apply Hline; [reflexivity|reflexivity|discriminate]|].
  cbn [has_nl] in H1. apply orb_false_iff in H1. destruct H1 as [Ha Ht].
  destruct (a =c " ").
  - apply Hline; [reflexivity| |].
    + unfold comment_str, line_c. cbn [cshebang ctxt cspace]. destruct t' as [|b t'']; [reflexivity|].
      cbn [app has_nl]. change ("#" =c LF) with false. change (" " =c LF) with false. cbn [orb]. exact Ht.
    + unfold comment_str, line_c. cbn [cshebang ctxt cspace]. destruct t'; discriminate.
  - apply Hline; [reflexivity| |].
    + unfold comment_str, line_c. cbn [cshebang ctxt cspace app has_nl]. change ("#" =c LF) with false. cbn [orb].
      now rewrite Ha, Ht.
    + unfold comment_str, line_c. cbn [cshebang ctxt cspace]. discriminate.
Qed.

Definition cmt_okb (raw : str) : bool := negb (has_nl raw).
Lemma cmt_okb_sound raw : cmt_okb raw = true -> cmt_ok raw.
Proof.
  unfold cmt_okb. intros H. apply negb_true_iff in H. unfold cmt_ok. split.
  - intros i. rewrite rb_plain. apply rb_ok, H.
  - rewrite rb_inline. apply rb_ok, H.
Qed.

Definition tok_okb (t : str) : bool := negb (isnil_b t) && negb (ends_nl t).
Lemma tok_okb_sound t : tok_okb t = true -> tok_ok t.
Proof.
  unfold tok_okb, tok_ok. intros H. apply andb_prop in H. destruct H as [H1 H2].
  split; [destruct t; [discriminate|discriminate]|now apply negb_true_iff].
Qed.

Fixpoint no_double_bb (prev : option cnode) (body : list (str * cnode)) : bool :=
  match body with
  | [] => true
  | (g, c) :: rest =>
      (if is_cmt c && negb (has_nl g) then match prev with Some p => negb (is_cmt p) | None => true end else true)
      && no_double_bb (Some c) rest
  end.
Lemma no_double_bb_sound : forall body prev, no_double_bb prev body = true -> no_double_b prev body.
Proof.
  induction body as [|[g c] rest IH]; intros prev H; [exact I|]. cbn [no_double_bb] in H. apply andb_prop in H.
  destruct H as [H1 H2]. split; [|apply IH, H2]. intros Hc Hg. rewrite Hc, Hg in H1. cbn [negb andb] in H1.
  destruct prev as [p|]; [now apply negb_true_iff|exact I].
Qed.
Fixpoint inl_okb (l : list (str * cnode)) : bool :=
  match l with [] => true | (g, n) :: t => negb (is_cmt n) && negb (has_nl g) && inl_okb t end.
Lemma inl_okb_sound l : inl_okb l = true -> inl_ok l.
Proof.
  induction l as [|[g n] t IH]; intros H; [exact I|]. cbn [inl_okb] in H. apply andb_prop in H. destruct H as [H H3].
  apply andb_prop in H. destruct H as [H1 H2]. split; [now apply negb_true_iff|]. split; [now apply negb_true_iff|apply IH, H3].
Qed.

Fixpoint wfFb (c : cnode) : bool :=
  match c with
  | CAtom isint t => tok_okb (if isint then strip_zeros t else t)
  | CCmt raw => cmt_okb raw
  | CBind name _ _ v _ => wfFb v && negb (is_bind v) && negb (is_cmt v)
  | CSet _ _ body cg =>
      (fix all (l : list (str * cnode)) : bool :=
         match l with [] => true | (_, n) :: t => wfFb n && (is_bind n || is_cmt n) && all t end) body
      && no_double_bb None body
      && (if has_nl (ctext c) then true else negb (has_nl cg) && inl_okb body)
  | CList body cg =>
      (fix all (l : list (str * cnode)) : bool :=
         match l with [] => true | (_, n) :: t => wfFb n && negb (is_bind n) && all t end) body
      && no_double_bb None body
      && (if has_nl (ctext c) then true else negb (has_nl cg) && inl_okb body)
  end.

Theorem wfFb_sound : forall c, wfFb c = true -> wfF c.
Proof.
  induction c as [isint t|raw|n g1 g2 v g3 IHv|r gr body cg IHb|body cg IHb] using cnode_ind'; intros H.
  - apply tok_okb_sound, H.
  - apply cmt_okb_sound, H.
  - cbn [wfFb] in H. apply andb_prop in H. destruct H as [H H3]. apply andb_prop in H. destruct H as [H1 H2].
    cbn [wfF]. split; [apply IHv, H1|]. split; now apply negb_true_iff.
  - cbn [wfFb] in H. apply andb_prop in H. destruct H as [H H3]. apply andb_prop in H. destruct H as [H1 H2].
    cbn [wfF]. split; [|split].
    + clear -IHb H1. induction body as [|[g n] t IH]; [exact I|]. inversion IHb as [|? ? Hi Hit]; subst. cbn [snd] in Hi.
      apply andb_prop in H1. destruct H1 as [H1 Ht]. apply andb_prop in H1. destruct H1 as [Hw Hbc].
      split; [split; [apply Hi, Hw|now apply orb_prop]|apply IH; assumption].
    + apply no_double_bb_sound, H2.
    + intros Hnl. rewrite Hnl in H3. apply andb_prop in H3. destruct H3 as [Hcg Hin].
      split; [now apply negb_true_iff|apply inl_okb_sound, Hin].
  - cbn [wfFb] in H. apply andb_prop in H. destruct H as [H H3]. apply andb_prop in H. destruct H as [H1 H2].
    cbn [wfF]. split; [|split].
    + clear -IHb H1. induction body as [|[g n] t IH]; [exact I|]. inversion IHb as [|? ? Hi Hit]; subst. cbn [snd] in Hi.
      apply andb_prop in H1. destruct H1 as [H1 Ht]. apply andb_prop in H1. destruct H1 as [Hw Hbc].
      split; [split; [apply Hi, Hw|now apply negb_true_iff]|apply IH; assumption].
    + apply no_double_bb_sound, H2.
    + intros Hnl. rewrite Hnl in H3. apply andb_prop in H3. destruct H3 as [Hcg Hin].
      split; [now apply negb_true_iff|apply inl_okb_sound, Hin].
Qed.

Definition wf_fileb (f : cfile) : bool :=
  match f_children f with
  | (g0, c0) :: rest =>
      isnil_b g0 && forallb (fun gn => wfFb (snd gn) && negb (is_bind (snd gn))) (f_children f)
      && no_double_bb None (f_children f) && Nat.eqb (count_items (conv (f_children f))) 1
  | [] => false
  end.
Theorem wf_fileb_sound f : wf_fileb f = true -> wf_file f.
Proof.
  unfold wf_fileb, wf_file. destruct (f_children f) as [|[g0 c0] rest] eqn:E; [discriminate|].
  intros H. apply andb_prop in H. destruct H as [H H4]. apply andb_prop in H. destruct H as [H H3].
  apply andb_prop in H. destruct H as [H1 H2].
  split; [destruct g0; [reflexivity|discriminate]|]. split; [|split].
  - rewrite forallb_forall in H2. apply Forall_forall. intros gn Hin. specialize (H2 gn Hin).
    apply andb_prop in H2. destruct H2 as [Hw Hb]. split; [apply wfFb_sound, Hw|now apply negb_true_iff].
  - apply no_double_bb_sound, H3.
  - now apply Nat.eqb_eq.
Qed.

(* the decidable guard makes the F0 theorems directly usable on concrete files *)
Corollary F0_checked f : wf_fileb f = true ->
  roundtrip f = ftext (canon_file f) /\ roundtrip (canon_file f) = ftext (canon_file f) /\ canonical_file (canon_file f) = true.
Proof.
  intros H. apply wf_fileb_sound in H. destruct (C06_F0 f H) as [H1 H2]. split; [exact H1|]. split; [exact H2|apply C18_F0, H].
Qed.

(* non-vacuity: a concrete file with a header comment, nested set and list, odd spacing, end-of-line comment *)
Definition demo : cfile :=
  {| f_children :=
       [ ([], CCmt (s "# header"));
         ([LF; LF], CSet false []
            [ ([LF; " "], CBind (s "a") [] [" "; " "] (CAtom true (s "007")) []);
              ([" "], CCmt (s "#eol"));
              ([LF; LF; LF; TAB], CBind (s "b") [" "] [LF; " "; " "; " "]
                 (CList [([" "], CAtom false (s "x")); ([" "; " "], CSet true [" "] [] [])] []) [" "]) ]
            [LF]) ];
     f_tail := [LF; LF; LF] |}.
Example demo_wf : wf_fileb demo = true. Proof. vm_compute. reflexivity. Qed.
Example demo_not_canonical : canonical_file demo = false. Proof. vm_compute. reflexivity. Qed.
Eval vm_compute in (string_of_list_ascii (ftext demo), string_of_list_ascii (roundtrip demo)).
Print Assumptions F0_checked.

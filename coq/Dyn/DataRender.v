(* C13: programmatically built values.  `of_py` is the token tree the construction API emits for a Python data value
   (strings through the GENERATED _escape_nix_string with escape_interpolation = False, dict keys verbatim, order kept);
   `denote` is how Nix reads such a token tree back as data (strings by NixLex.nix_read, attribute names by
   NixAttr.nix_attr_read, a negative number directly inside a list is NOT an element: `[ -1 ]` is a syntax error).
   The layout of the emitted text is the business of the rendering theorems (C02/C06); this file is about content. *)
From Coq Require Import List Ascii String Bool Arith ZArith Lia.
Import ListNotations.
From Dyn Require Import Gen Refine.
From Lex Require Import NixLex NixAttr.
Close Scope string_scope.

Inductive pyv := PNone | PBool (b : bool) | PInt (z : Z) | PStr (s : str) | PList (l : list pyv) | PDict (items : list (str * pyv)).
(* emitted token tree: string bodies are the text between the quotes; names are the text written before `=` *)
Inductive tok := TNull | TBool (b : bool) | TInt (z : Z) | TStr (body : str) | TList (l : list tok) | TSet (items : list (str * tok)).

Fixpoint of_py (v : pyv) : tok :=
  match v with
  | PNone => TNull | PBool b => TBool b | PInt z => TInt z
  | PStr s => TStr (_escape_nix_string false s)
  | PList l => TList (map of_py l)
  | PDict items => TSet (map (fun kv => (fst kv, of_py (snd kv))) items)
  end.

Fixpoint denote (t : tok) : option pyv :=
  match t with
  | TNull => Some PNone | TBool b => Some (PBool b) | TInt z => Some (PInt z)
  | TStr body => option_map PStr (nix_read body)
  | TList l =>
      option_map PList
      ((fix go (l : list tok) : option (list pyv) :=
         match l with
         | [] => Some []
         | x :: r => match x with TInt z => if (z <? 0)%Z then None else match go r with Some r' => Some (PInt z :: r') | None => None end
                     | _ => match denote x, go r with Some x', Some r' => Some (x' :: r') | _, _ => None end end
         end) l)
  | TSet items =>
      option_map PDict
      ((fix go (l : list (str * tok)) : option (list (str * pyv)) :=
         match l with
         | [] => Some []
         | (k, x) :: r => match nix_attr_read k, denote x, go r with Some k', Some x', Some r' => Some ((k', x') :: r') | _, _, _ => None end
         end) items)
  end.

(* the stated domain: strings without "${", identifier keys that are not keywords, no negative number directly in a list *)
Fixpoint in_domain (v : pyv) : bool :=
  match v with
  | PStr s => no_interp s
  | PList l => forallb (fun x => match x with PInt z => negb (z <? 0)%Z | _ => in_domain x end) l
  | PDict items => forallb (fun kv => nix_ident (fst kv) && negb (is_keyword (fst kv)) && in_domain (snd kv)) items
  | _ => true
  end.

Lemma pyv_ind' (P : pyv -> Prop) :
  P PNone -> (forall b, P (PBool b)) -> (forall z, P (PInt z)) -> (forall s, P (PStr s)) ->
  (forall l, Forall P l -> P (PList l)) -> (forall items, Forall (fun kv => P (snd kv)) items -> P (PDict items)) -> forall v, P v.
Proof.
  intros H1 H2 H3 H4 H5 H6. fix IH 1. intros [| b | z | s | l | items]; [apply H1|apply H2|apply H3|apply H4| |].
  - apply H5. induction l as [|x l IHl]; constructor; [apply IH|exact IHl].
  - apply H6. induction items as [|[k x] r IHr]; constructor; [apply IH|exact IHr].
Qed.

Theorem C13_roundtrip : forall v, in_domain v = true -> denote (of_py v) = Some v.
Proof.
  induction v as [| b | z | s | l IHl | items IHi] using pyv_ind'; intros Hd; try reflexivity.
  - cbn [of_py denote]. rewrite generated_escape_is_spec. rewrite (read_escape_value s Hd). reflexivity.
  - cbn [of_py denote in_domain] in *.
    assert (E : (fix go (l0 : list tok) : option (list pyv) :=
               match l0 with
               | [] => Some []
               | x :: r => match x with TInt z => if (z <? 0)%Z then None else match go r with Some r' => Some (PInt z :: r') | None => None end
                           | _ => match denote x, go r with Some x', Some r' => Some (x' :: r') | _, _ => None end end
               end) (map of_py l) = Some l).
    { induction l as [|x l IH]; [reflexivity|]. inversion IHl as [|? ? Hx Hl]; subst.
      cbn [forallb] in Hd. apply andb_prop in Hd. destruct Hd as [Hdx Hdl]. cbn [map]. specialize (IH Hl Hdl).
      destruct x as [| b | z | s | l' | items']; cbn [of_py] in *; rewrite ?IH; try reflexivity.
      - apply negb_true_iff in Hdx. rewrite Hdx. reflexivity.
      - rewrite (Hx Hdx). reflexivity.
      - rewrite (Hx Hdx). reflexivity.
      - rewrite (Hx Hdx). reflexivity. }
    rewrite E. reflexivity.
  - cbn [of_py denote in_domain] in *.
    assert (E : (fix go (l : list (str * tok)) : option (list (str * pyv)) :=
               match l with
               | [] => Some []
               | (k, x) :: r => match nix_attr_read k, denote x, go r with Some k', Some x', Some r' => Some ((k', x') :: r') | _, _, _ => None end
               end) (map (fun kv => (fst kv, of_py (snd kv))) items) = Some items).
    { induction items as [|[k x] r IH]; [reflexivity|]. inversion IHi as [|? ? Hx Hr]; subst. cbn [snd] in Hx.
      cbn [forallb fst snd] in Hd. apply andb_prop in Hd. destruct Hd as [Hd1 Hdr]. apply andb_prop in Hd1. destruct Hd1 as [Hk Hdx].
      apply andb_prop in Hk. destruct Hk as [Hid Hkw]. apply negb_true_iff in Hkw.
      cbn [map fst snd]. rewrite (attr_read_bare k Hid Hkw), (Hx Hdx), (IH Hr Hdr). reflexivity. }
    rewrite E. reflexivity.
Qed.
Print Assumptions C13_roundtrip.

(* order, sign and string contents are part of the statement above; rendering is a function, so the same value renders
   the same token tree twice *)
Theorem C13_deterministic : forall v w, v = w -> of_py v = of_py w.
Proof. intros v w ->. reflexivity. Qed.

(* FULL statement without the "no negative number directly in a list" restriction is REFUTED (finding F-14) *)
Theorem C13_negative_in_list_refuted : denote (of_py (PList [PInt (-1)])) = None.
Proof. reflexivity. Qed.
Print Assumptions C13_negative_in_list_refuted.

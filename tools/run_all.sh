#!/bin/sh
# run every registered quick check on the current tree (in parallel groups) and summarise; refreshes evidence/
cd /verif
props=$(/venv/bin/python -c "import json; print(' '.join(c['property_id'] for c in json.load(open('MANIFEST.json'))['checks']))")
mkdir -p build/runall
echo $props | tr ' ' '\n' | xargs -P ${PAR:-4} -I{} sh -c './check {} --tier ${TIER:-quick} > build/runall/{}.out 2>&1; echo "{} exit=$?"'
grep -h "VIOLATION\|FAILED" build/runall/*.out | cut -c1-200

(* Proof spike, part 10: the file level.  roundtrip f = spec_file f. *)
From Coq Require Import List Ascii String Bool Arith Lia.
Import ListNotations.
From F0 Require Import F0s Specs P1 P2 P3g P5 P6 P7 P8 P9.
Open Scope char_scope.

(* trailing text without a closer: no blank-line marker is appended *)
Lemma T_flat ind A0 P : A0_ok A0 -> P_ok P ->
  T (a0_triv A0 ++ pend_triv P) ind = a0_text A0 ++ pend_text ind P.
Proof.
  intros HA HP.
  destruct A0 as [r0|]; cbn [a0_triv a0_text app].
  - rewrite T_inline by reflexivity.
    pose proof (tailQ ind [TC (mk_inline (comment_from_cst r0))] P [] HP) as Hq.
    unfold Etriv in Hq. cbn [has_empty_line app] in Hq. rewrite !app_nil_r in Hq. rewrite Hq. reflexivity.
  - destruct (pend_first_not_inline P []) as [H | ->].
    + rewrite app_nil_r in H. rewrite T_general by exact H.
      pose proof (tailQ ind [] P [] HP) as Hq.
      unfold Etriv in Hq. cbn [has_empty_line app] in Hq. rewrite !app_nil_r in Hq. exact Hq.
    + reflexivity.
Qed.

Section Flat.
Variables (ind : nat) (core : cnode -> str) (R : ast -> str).
Let kok := kid_ok ind core R T.
Let iok := item_ok ind core R T.

Definition finish0 (items : list ast) (before : list triv) : list ast :=
  match before, items with
  | [], _ => items
  | _, _ :: _ => append_after items before
  | _, [] => items
  end.
Lemma finish0_open pre a0 B A0 P :
  finish0 (pre ++ [mk a0 B (a0_triv A0)]) (pend_triv P) = pre ++ [mk a0 B (a0_triv A0 ++ pend_triv P)].
Proof.
  unfold finish0. destruct (pend_triv P) as [|t tl] eqn:E.
  - rewrite app_nil_r. reflexivity.
  - destruct (pre ++ [mk a0 B (a0_triv A0)]) eqn:E2; [destruct pre; discriminate|]. rewrite <- E2.
    rewrite append_after_snoc, mk_after, mk_set_after. reflexivity.
Qed.

Lemma pds_tail_flat : forall content pre P A0 c0 a0 B p,
  Forall kok content -> no_double (Some p) content ->
  iok c0 a0 -> A0_ok A0 -> P_ok P ->
  (is_cmt p = false -> P = [] /\ A0 = None) ->
  OUT R (finish0 (fst (pds false content (pre ++ [mk a0 B (a0_triv A0)]) (pend_triv P) (Some p)))
                 (snd (pds false content (pre ++ [mk a0 B (a0_triv A0)]) (pend_triv P) (Some p))))
  = OUT R pre ++ LF :: format_trivia B ind ++ sp ind ++ core c0 ++ a0_text A0 ++ pend_text ind P
        ++ seq_lines core false ind (map strip2 content) (Some p) true.
Proof.
  induction content as [|[[g c] a] rest IH]; intros pre P A0 c0 a0 B p Hk Hd Hi HA HP Hp.
  - cbn [pds fst snd map seq_lines app]. rewrite finish0_open, OUT_snoc.
    destruct Hi as (Hb0 & Ha0 & HR & Hne & Hend). rewrite HR, (T_flat ind A0 P HA HP).
    rewrite app_nil_r. repeat rewrite <- app_assoc. reflexivity.
  - inversion Hk as [|? ? Hk1 Hk2]; subst. destruct Hd as [Hd1 Hd2].
    cbn [pds map strip2 fst snd seq_lines].
    assert (Hitems : (match pre ++ [mk a0 B (a0_triv A0)] with [] => true | _ => false end) = false)
      by (destruct pre; reflexivity).
    rewrite Hitems. unfold kok in Hk1. cbn [kid_ok] in Hk1.
    destruct (is_cmt c) eqn:Ec.
    + cbn [negb andb]. rewrite !andb_true_r.
      destruct (has_nl g) eqn:Eg; cbn [negb].
      * rewrite <- app_assoc. rewrite <- pend_triv_snoc.
        rewrite (IH pre (P ++ [(g, craw c)]) A0 c0 a0 B c Hk2 Hd2 Hi HA).
        -- rewrite pend_text_snoc. unfold spec_comment. repeat rewrite <- app_assoc. reflexivity.
        -- unfold P_ok. apply Forall_app. split; [exact HP|]. constructor; [exact Hk1|constructor].
        -- rewrite Ec. discriminate.
      * specialize (Hd1 eq_refl eq_refl). destruct (Hp Hd1) as [-> ->].
        cbn [pend_triv flat_map app a0_triv]. rewrite gap_trivia_no_nl by exact Eg.
        rewrite append_after_snoc, mk_after, mk_set_after. cbn [app].
        change [TC (mk_inline (comment_from_cst (craw c)))] with (a0_triv (Some (craw c))).
        change (@nil triv) with (pend_triv []).
        rewrite (IH pre [] (Some (craw c)) c0 a0 B c Hk2 Hd2 Hi).
        -- cbn [a0_text pend_text flat_map app]. repeat rewrite <- app_assoc. reflexivity.
        -- exact Hk1.
        -- constructor.
        -- rewrite Ec. discriminate.
    + destruct Hk1 as (Hb & Ha & HRc & Hnec & Hendc).
      rewrite mk_fresh by assumption.
      change (mk a (pend_triv P ++ gap_trivia g) []) with (mk a (pend_triv P ++ gap_trivia g) (a0_triv None)).
      change (@nil triv) with (pend_triv []).
      rewrite (IH (pre ++ [mk a0 B (a0_triv A0)]) [] None c a (pend_triv P ++ gap_trivia g) c Hk2 Hd2).
      * rewrite OUT_snoc. destruct Hi as (_ & _ & HR & _ & _). rewrite HR.
        rewrite (T_a0 ind A0). cbn [a0_text pend_text flat_map app].
        rewrite format_trivia_app, format_trivia_gap.
        repeat rewrite <- app_assoc. rewrite pend_shift. cbn [app]. repeat rewrite <- app_assoc. reflexivity.
      * repeat split; assumption.
      * exact I.
      * constructor.
      * intros _. split; reflexivity.
Qed.

Lemma pds_start_flat : forall content Q qt p,
  Forall kok content -> no_double (Some p) content -> is_cmt p = true ->
  (forall Z, LF :: format_trivia Q ind ++ Z = qt ++ LF :: Z) ->
  has_item content = true ->
  OUT R (finish0 (fst (pds false content [] Q (Some p))) (snd (pds false content [] Q (Some p))))
  = qt ++ seq_lines core false ind (map strip2 content) (Some p) false.
Proof.
  induction content as [|[[g c] a] rest IH]; intros Q qt p Hk Hd Hpc HQ Hhas; [discriminate|].
  inversion Hk as [|? ? Hk1 Hk2]; subst. destruct Hd as [Hd1 Hd2].
  cbn [pds map strip2 fst snd seq_lines]. unfold kok in Hk1. cbn [kid_ok] in Hk1.
  destruct (is_cmt c) eqn:Ec.
  - cbn [negb andb]. rewrite !andb_false_r.
    cbn [has_item existsb fst snd] in Hhas. rewrite Ec in Hhas. cbn [negb orb] in Hhas.
    rewrite (IH ((Q ++ gap_trivia g) ++ [TC (comment_from_cst (craw c))])
                (qt ++ LF :: blank g ++ spec_comment (craw c) ind) c Hk2 Hd2 Ec).
    + repeat rewrite <- app_assoc. reflexivity.
    + intros Z. rewrite !format_trivia_app, format_trivia_gap. cbn [format_trivia].
      repeat rewrite <- app_assoc. cbn [app]. rewrite HQ. unfold spec_comment.
      repeat rewrite <- app_assoc. reflexivity.
    + exact Hhas.
  - destruct Hk1 as (Hb & Ha & HRc & Hnec & Hendc).
    rewrite mk_fresh by assumption. cbn [app].
    assert (Hi : iok c a) by (repeat split; assumption).
    pose proof (pds_tail_flat rest [] [] None c a (Q ++ gap_trivia g) c Hk2 Hd2 Hi I (Forall_nil _)
                  (fun _ => conj eq_refl eq_refl)) as Ht.
    cbn [pend_triv flat_map a0_triv app OUT a0_text pend_text] in Ht. rewrite Ht.
    rewrite format_trivia_app, format_trivia_gap.
    repeat rewrite <- app_assoc. rewrite HQ. repeat rewrite <- app_assoc. reflexivity.
Qed.

(* whole sequence without opener/closer, first gap empty (file level) *)
Theorem seq_flat c0 a0 rest :
  Forall kok (([], c0, a0) :: rest) -> no_double None (([], c0, a0) :: rest) ->
  has_item (([], c0, a0) :: rest) = true ->
  OUT R (finish0 (fst (pds false (([], c0, a0) :: rest) [] [] None))
                 (snd (pds false (([], c0, a0) :: rest) [] [] None)))
  = seq_lines core false ind (map strip2 (([], c0, a0) :: rest)) None false.
Proof.
  intros Hk Hd Hhas. inversion Hk as [|? ? Hk1 Hk2]; subst. destruct Hd as [_ Hd2].
  cbn [pds map strip2 fst snd seq_lines]. unfold kok in Hk1. cbn [kid_ok] in Hk1.
  destruct (is_cmt c0) eqn:Ec.
  - cbn [has_item existsb fst snd] in Hhas. rewrite Ec in Hhas. cbn [negb orb] in Hhas.
    cbn [app].
    rewrite (pds_start_flat rest [TC (comment_from_cst (craw c0))]
               (LF :: spec_comment (craw c0) ind) c0 Hk2 Hd2 Ec).
    + reflexivity.
    + intros Z. cbn [format_trivia]. unfold spec_comment. repeat rewrite <- app_assoc. reflexivity.
    + exact Hhas.
  - destruct Hk1 as (Hb & Ha & HRc & Hnec & Hendc).
    rewrite mk_fresh by assumption. cbn [app].
    assert (Hi : iok c0 a0) by (repeat split; assumption).
    pose proof (pds_tail_flat rest [] [] None c0 a0 [] c0 Hk2 Hd2 Hi I (Forall_nil _)
                  (fun _ => conj eq_refl eq_refl)) as Ht.
    cbn [pend_triv flat_map a0_triv app OUT a0_text pend_text format_trivia] in Ht. rewrite Ht.
    reflexivity.
Qed.
End Flat.
Print Assumptions seq_flat.

"""Render correspondence for fragment F0: generated documents (canonical, or with every whitespace gap rewritten
arbitrarily: spaces, tabs, newlines, blank-line runs; own-line and end-of-line comments) are parsed by the real
tree-sitter, the real CST is converted to the model's concrete syntax, and inside Coq we check, per document:
tiling (text of the converted tree = source), model round trip = implementation output, formatter spec =
implementation output, text of the canonicalised tree = implementation output, the canonicalised tree satisfies
`canonical_file`, for canonical inputs that `canonical_file` holds of the input and the output is the input, and that the
implementation's output, parsed again by tree-sitter and converted, IS `canon_file f` (the ts_stable hypothesis of the
end-to-end theorems in F0.P20, validated on every case).
The spec-level comparisons are required inside the decidable domain guard wf_fileb (the hypothesis of the theorems).
usage: f0_corr.py SEED N OUTDIR PREFIX"""
import json, os, random, re, sys
from common import write_shards
seed, N, outdir, prefix = int(sys.argv[1]), int(sys.argv[2]), sys.argv[3], sys.argv[4]
from gen_docs import DocGen2, perturb
from nix_manipulator import parse
from nix_manipulator.parser import parse_to_ast
class Unsupported(Exception): pass
ATOMS = {'variable_expression', 'integer_expression', 'float_expression', 'string_expression', 'indented_string_expression', 'path_expression', 'hpath_expression', 'spath_expression', 'select_expression'}
def q(s): return '(s "' + s.replace('"', '""') + '")'
class Conv:
    def __init__(self, src): self.b = src.encode()
    def gap(self, a, b):
        g = self.b[a:b].decode()
        if g.strip(' \t\n'): raise Unsupported('non-ws gap %r' % g)
        return g
    def node(self, n):
        t = n.type
        if t == 'comment':
            txt = n.text.decode()
            if '\n' in txt or txt == '/**/': raise Unsupported('ml comment')
            return 'CCmt %s' % q(txt)
        if t in ATOMS:
            if t == 'select_expression':
                if any(c.type == 'comment' for c in n.children) or n.child_by_field_name('default') is not None or re.search(r'\s', n.text.decode()): raise Unsupported('select')
                if n.child_by_field_name('expression').type != 'variable_expression': raise Unsupported('select base')
            return 'CAtom %s %s' % ('true' if t == 'integer_expression' else 'false', q(n.text.decode()))
        if t == 'binding':
            ch = n.children
            if [c.type for c in ch][:2] != ['attrpath', '='] or len(ch) != 4 or ch[3].type != ';' or ch[2].type == 'comment': raise Unsupported('binding shape')
            name = ch[0].text.decode()
            if re.search(r'\s|#|/\*', re.sub(r'"[^"]*"', 'Q', name)): raise Unsupported('attrpath ws')
            return 'CBind %s %s %s (%s) %s' % (q(name), q(self.gap(ch[0].end_byte, ch[1].start_byte)), q(self.gap(ch[1].end_byte, ch[2].start_byte)), self.node(ch[2]), q(self.gap(ch[2].end_byte, ch[3].start_byte)))
        if t in ('attrset_expression', 'rec_attrset_expression', 'list_expression'):
            is_set = t != 'list_expression'
            op, cl = ('{', '}') if is_set else ('[', ']')
            ch = n.children
            opening = [c for c in ch if c.type == op][0]; closing = [c for c in ch if c.type == cl][-1]
            grec = None
            if t == 'rec_attrset_expression':
                rec = [c for c in ch if c.type == 'rec'][0]
                if any(c.type == 'comment' and c.start_byte < opening.start_byte for c in ch): raise Unsupported('rec comment')
                grec = q(self.gap(rec.end_byte, opening.start_byte))
            content = []
            for c in ch:
                if c.type in (op, cl, 'rec'): continue
                if c.type == 'binding_set': content.extend(c.children)
                else: content.append(c)
            items = []; prev_end = opening.end_byte
            for c in content:
                if is_set and c.type not in ('binding', 'comment'): raise Unsupported(c.type)
                items.append('(%s, %s)' % (q(self.gap(prev_end, c.start_byte)), self.node(c))); prev_end = c.end_byte
            body = '[' + '; '.join(items) + ']'
            cg = q(self.gap(prev_end, closing.start_byte))
            if is_set: return 'CSet %s %s %s %s' % ('true' if t == 'rec_attrset_expression' else 'false', grec or '(s "")', body, cg)
            return 'CList %s %s' % (body, cg)
        raise Unsupported(t)
    def file(self, root):
        if root.has_error: raise Unsupported('error')
        if root.start_byte != 0: raise Unsupported('leading ws')
        items = []; prev_end = root.start_byte
        for c in root.children:
            items.append('(%s, %s)' % (q(self.gap(prev_end, c.start_byte)), self.node(c))); prev_end = c.end_byte
        return '{| f_children := [%s]; f_tail := %s |}' % ('; '.join(items), q(self.gap(prev_end, root.end_byte)))
R = random.Random(seed); G = DocGen2(R); R2 = random.Random(seed + 1000)
cases, stats, samples = [], {'canonical_inputs': 0, 'perturbed_inputs': 0, 'skipped_outside_fragment': 0, 'fixed_points': 0, 'output_outside_fragment': 0}, []
while len(cases) < N:
    d = G.doc(); pert = R2.random() < 0.75
    p = perturb(R2, d, parse_to_ast) if pert else d
    if parse_to_ast(p).has_error or len(p) > 900: continue
    try: c = Conv(p).file(parse_to_ast(p))
    except Unsupported: stats['skipped_outside_fragment'] += 1; continue
    out = parse(p).rebuild()
    try: c_out = 'Some (%s)' % Conv(out).file(parse_to_ast(out))      # the re-parsed output, for the ts_stable hypothesis of F0.P20
    except Unsupported: c_out = 'None'; stats['output_outside_fragment'] += 1
    stats['perturbed_inputs' if pert else 'canonical_inputs'] += 1
    stats['fixed_points'] += out == p
    cases.append('(%s, %s, %s, %s, %s)' % (q(p), c, q(out), 'true' if out == p else 'false', c_out))
    if len(samples) < 3: samples.append({'source': p, 'implementation_output': out})
HDR = ('From Coq Require Import List Ascii String Bool. Import ListNotations.\nFrom F0 Require Import F0s Specs Canon Canonize P18 P20.\nFrom Dyn Require Import FmtGen FmtGenProps.\nOpen Scope string_scope.\nOpen Scope bool_scope.\n'
       'Definition eqs (a b : str) : bool := if list_eq_dec ascii_dec a b then true else false.\n')
OK = ("Definition ok (c : str * cfile * str * bool * option cfile) : bool :=\n  let '(src, f, expected, fixed, reparsed) := c in\n"
      "  eqs (ftext f) src && eqs (roundtrip f) expected && afile_lif (from_cst_file f) &&\n"
      "  (negb (wf_fileb f) || (eqs (spec_file f) expected && eqs (ftext (canon_file f)) expected && canonical_file (canon_file f)\n"
      "                         && Bool.eqb (canonical_file f) fixed\n"
      "                         && match reparsed with Some f' => cfile_eqb (canon_file f) f' && eqs (ftext f') expected | None => false end)).\n")
# the guard count is printed by each shard as a second answer
import common
common.BAD = common.BAD
write_shards(outdir, prefix, HDR, 'str * cfile * str * bool * option cfile', OK, cases, 16)
for fn in os.listdir(outdir):
    if re.fullmatch(re.escape(prefix) + r'_\d+\.v', fn):
        open(os.path.join(outdir, fn), 'a').write('Eval vm_compute in ("inside_guard", List.length (filter (fun c => wf_fileb (snd (fst (fst (fst c))))) cases)).\n')
json.dump({'stats': stats, 'keys': [], 'distinct_count': len(set(cases)),
           'rule': 'F0 documents from the grammar-directed generator (sets, rec, lists, attrpath and quoted names, opaque atoms, comments of every single-line spelling, blank lines, every final-newline situation), 75% with every inter-token gap rewritten (spaces, tabs, newlines, blank runs); converted from the REAL tree-sitter CST; distinct = distinct sources',
           'samples': samples}, open(os.path.join(outdir, prefix + '_summary.json'), 'w'))
print(len(cases))

"""Pilot for C10 (chain construction half): a transcription of scopes_for_owner / attach_resolution_context /
the getitem traversal / Identifier.value as a state machine over the registry, compared with the implementation
on random HISTORIES of accesses to the same parsed document (the registry persists between accesses: F-26)."""
import sys, random, collections, itertools, os, json
from common import write_shards
from nix_manipulator import parse
from nix_manipulator.expressions import Identifier
from nix_manipulator.expressions.set import AttributeSet
from nix_manipulator.exceptions import ResolutionError
R = random.Random(int(sys.argv[1])); N = int(sys.argv[2]); outdir, prefix = sys.argv[3], sys.argv[4]
NAMES = ['a', 'b', 'c', 'd']
ids = itertools.count()
class MSet:
    def __init__(self, rec, layers, values): self.id = next(ids); self.rec = rec; self.layers = layers; self.values = values
class MInt:
    def __init__(self, n): self.id = next(ids); self.n = n
class MRef:
    def __init__(self, name): self.id = next(ids); self.name = name
def gen_scope(depth, k):
    return [(n, gen_val(depth)) for n in R.sample(NAMES, k)]
def gen_val(depth):
    r = R.random()
    if r < 0.3: return MInt(R.randrange(10, 99))
    if r < 0.75 or depth <= 0: return MRef(R.choice(NAMES))
    return gen_set(depth - 1)
def gen_set(depth):
    layers = [gen_scope(0, R.randrange(1, 3)) for _ in range(R.choice([0, 0, 1, 1, 2]))]
    return MSet(R.random() < 0.45, layers, gen_scope(depth, R.randrange(1, 4)))
def show(v):
    if isinstance(v, MInt): return str(v.n)
    if isinstance(v, MRef): return v.name
    s = ''.join('let ' + ' '.join('%s = %s;' % (n, show(x)) for n, x in l) + ' in ' for l in v.layers)
    return s + ('rec ' if v.rec else '') + '{ ' + ' '.join('%s = %s;' % (n, show(x)) for n, x in v.values) + ' }'
# ---------- model ----------
def scope_items(sc, sets):
    kind, sid, idx = sc
    s = sets[sid]
    return s.values if kind == 'vals' else s.layers[idx]
def scopes_for_owner(reg, owner):
    inherited = reg.get(owner.id); scopes = list(inherited) if inherited else []
    scopes += [('layer', owner.id, i) for i, l in enumerate(owner.layers) if l]
    if owner.rec:
        base = tuple(scopes)
        if base: reg[owner.id] = base
        scopes.append(('vals', owner.id, 0))
    return tuple(scopes)
def attach(reg, value, owner):
    scopes = scopes_for_owner(reg, owner)
    if scopes: reg[value.id] = scopes
def set_getitem(reg, s, key):
    for n, v in s.values:
        if n == key: attach(reg, v, s); return v
    raise KeyError(key)
def resolve(reg, sets, name, scopes, visited):
    n = len(scopes)
    for index in range(n):
        sc = scopes[n - 1 - index]; chain = scopes[: n - index]
        for pos, (bn, bv) in enumerate(scope_items(sc, sets)):
            if bn == name:
                bid = (sc, pos)
                if bid in visited: return 'cyclic'
                visited.add(bid)
                reg[bv.id] = chain
                if isinstance(bv, MRef): return resolve(reg, sets, bv.name, chain, visited)
                return bv
    return 'unbound'
def ident_value(reg, sets, ref):
    ctx = reg.get(ref.id)
    if ctx is None: return 'nocontext'
    return resolve(reg, sets, ref.name, ctx, set())
def collect(v, sets):
    if isinstance(v, MSet):
        sets[v.id] = v
        for l in v.layers:
            for _, x in l: collect(x, sets)
        for _, x in v.values: collect(x, sets)
def outcome(v): return 'set' if isinstance(v, MSet) else str(v.n) if isinstance(v, MInt) else v

# ---------- harness: implementation outcomes written as Coq cases ----------
def q(t): return '(s "%s")' % t
def vref(v):
    if isinstance(v, MInt): return 'RInt %d %d' % (v.id, v.n)
    if isinstance(v, MRef): return 'RRef %d %s' % (v.id, q(v.name))
    return 'RSet %d' % v.id
def items(l): return '[' + '; '.join('(%s, %s)' % (q(n), vref(x)) for n, x in l) + ']'
def table(sets):
    return '[' + '; '.join('(%d, {| s_rec := %s; s_layers := [%s]; s_vals := %s |})' % (sid, 'true' if st_.rec else 'false', '; '.join(items(l) for l in st_.layers), items(st_.values)) for sid, st_ in sets.items()) + ']'
cases = []; dist = collections.Counter()
while len(cases) < N:
    top = gen_set(2); text = show(top) + '\n'; sets = {}; collect(top, sets)
    try: src = parse(text)
    except Exception: continue
    hist = []
    for step in range(R.randrange(2, 9)):
        path = []; cur = top
        while True:
            k, v = R.choice(cur.values); path.append(k)
            if isinstance(v, MSet) and R.random() < 0.7: cur = v; continue
            break
        x = src
        for k in path: x = x[k]
        if isinstance(x, Identifier):
            try:
                r = x.value
                ires = 'OSet' if isinstance(r, AttributeSet) else 'OInt %s' % r.rebuild().strip()
            except ResolutionError as e:
                m = str(e)
                ires = 'OCyclic' if m.startswith('Cyclic') else 'OUnbound' if m.startswith('Unbound') else 'ONoContext' if 'without scope context' in m else 'OFuel'
        else: ires = 'OSet' if isinstance(x, AttributeSet) else 'OInt %s' % x.rebuild().strip()
        dist[ires.split()[0]] += 1
        hist.append('([%s], %s)' % ('; '.join(q(k) for k in path), ires))
    # positional certificate (meaningful for documents without `rec` sets; wfb rejects the others)
    pos = {top.id: ()}
    def go(s_, inh):
        own = inh + tuple('SLayer %d %d' % (s_.id, i) for i, l in enumerate(s_.layers) if l)
        for n, v in s_.values:
            pos[v.id] = own
            if isinstance(v, MSet): go(v, own)
    go(top, ())
    pm = '[' + '; '.join('(%d, [%s])' % (i, '; '.join(c)) for i, c in pos.items()) + ']'
    cases.append('(%s, %d, [%s], %s)' % (table(sets), top.id, '; '.join(hist), pm))
HDR = 'From Coq Require Import List Ascii String Arith Bool. Import ListNotations.\nFrom C Require Import ChainModel ChainProps ChainInv.\nOpen Scope string_scope.\n'
OK = ("Definition ok (c : table * nat * list (list str * outcome) * pmap) : bool := let '(t, top, h, p) := c in\n"
      "  match bad 0 [(t, top, h)] with [] => true | _ => false end && (negb (wfb t top p) || match bad 0 [(t, top, map (fun ph => (fst ph, access_pure t top (fst ph))) h)] with [] => true | _ => false end).\n")
write_shards(outdir, prefix, HDR, 'table * nat * list (list str * outcome) * pmap', OK, cases, 16)
for fn in os.listdir(outdir):
    if fn.startswith(prefix + '_') and fn.endswith('.v'):
        open(os.path.join(outdir, fn), 'a').write('Eval vm_compute in ("rec_free_domain", List.length (filter (fun c => let \'(t, top, h, p) := c in wfb t top p) cases)).\n')
json.dump({'stats': {'outcomes': dict(dist)}, 'keys': sorted(dist), 'distinct_count': len(set(cases)),
           'rule': 'documents of nested plain/rec sets with lifted let layers; HISTORIES of 2-8 accesses src[k1][k2]...[.value] to the same parsed document (the registry persists between accesses); every answer compared with the registry state machine, and inside the rec-free domain also with the history-free lexical traversal',
           'samples': [cases[0][:400]]}, open(os.path.join(outdir, prefix + '_summary.json'), 'w'))
print(len(cases))

(* Design spike (not framework code): typed concrete syntax for fragment F0, the reader
   (from_cst), the printer (rebuild) mirroring the Python, and the formatter SPEC.
   Purpose: settle the representation (single nested inductive, explicit gaps), check that the
   three definitions agree with the implementation on converted real CSTs by vm_compute. *)
From Coq Require Import List Ascii String Bool Arith Lia.
Import ListNotations.
Open Scope char_scope.
Notation str := (list ascii).
Definition s (x : string) : str := list_ascii_of_string x.
Definition LF : ascii := "010".
Definition TAB : ascii := "009".
Definition sp (n : nat) : str := repeat " " n.
Notation "a =c b" := (Ascii.eqb a b) (at level 70).

(* ---------- Python string helpers ---------- *)
Fixpoint has_nl (g : str) : bool := match g with [] => false | c :: r => (c =c LF) || has_nl r end.
Fixpoint blank_after (g : str) : bool :=
  match g with
  | [] => false
  | c :: r => if c =c LF then true else if (c =c " ") || (c =c TAB) then blank_after r else false
  end.
Fixpoint has_empty_line (g : str) : bool :=
  match g with [] => false | c :: r => ((c =c LF) && blank_after r) || has_empty_line r end.
(* len(gap.rsplit("\n",1)[-1]) *)
Fixpoint after_last_nl (g : str) (acc : nat) : nat :=
  match g with [] => acc | c :: r => if c =c LF then after_last_nl r 0 else after_last_nl r (S acc) end.
Definition indent_from_gap (g : str) : nat := if has_nl g then after_last_nl g 0 else 0.
Definition ends_nl (x : str) : bool := match rev x with c :: _ => c =c LF | [] => false end.
Fixpoint lstrip_sp (x : str) : str := match x with c :: r => if (c =c " ") || (c =c TAB) || (c =c LF) then lstrip_sp r else x | [] => [] end.
Definition strip (x : str) : str := rev (lstrip_sp (rev (lstrip_sp x))).
Fixpoint drop_nl (x : str) : str := match x with c :: r => if c =c LF then drop_nl r else x | [] => [] end.
Definition rstrip_nl (x : str) : str := rev (drop_nl (rev x)).   (* value_str.rstrip("\n") *)
Fixpoint join (sep : str) (l : list str) : str :=
  match l with [] => [] | [x] => x | x :: r => x ++ sep ++ join sep r end.
Fixpoint strip_zeros (x : str) : str := match x with "0" :: (_ :: _) as r => strip_zeros r | _ => x end.

(* ---------- typed concrete syntax with gaps (what the harness builds from tree-sitter) ---------- *)
Inductive cnode :=
| CAtom (isint : bool) (text : str)
| CCmt (raw : str)                                   (* comment token text, incl. # or /* */ *)
| CBind (name : str) (g_eq g_val : str) (v : cnode) (g_semi : str)
| CSet (isrec : bool) (g_rec : str) (body : list (str * cnode)) (close_gap : str)
| CList (body : list (str * cnode)) (close_gap : str).
(* file: children with the gap before each (first gap = "" in tree-sitter), final gap *)
Record cfile := { f_children : list (str * cnode); f_tail : str }.

Fixpoint ctext (c : cnode) : str :=
  match c with
  | CAtom _ t => t
  | CCmt r => r
  | CBind n g1 g2 v g3 => n ++ g1 ++ "=" :: g2 ++ ctext v ++ g3 ++ [";"]
  | CSet r gr body cg =>
      (if r then s "rec" ++ gr else []) ++ "{" ::
      (fix go (l : list (str * cnode)) : str := match l with [] => [] | (g, n) :: t => g ++ ctext n ++ go t end) body
      ++ cg ++ ["}"]
  | CList body cg =>
      "[" :: (fix go (l : list (str * cnode)) : str := match l with [] => [] | (g, n) :: t => g ++ ctext n ++ go t end) body
      ++ cg ++ ["]"]
  end.
Definition ftext (f : cfile) : str :=
  flat_map (fun '(g, n) => g ++ ctext n) (f_children f) ++ f_tail f.

(* ---------- AST (mirrors the dataclasses that matter for F0) ---------- *)
Inductive ckind := KLine | KBlock | KDoc.
Record comment := { ck : ckind; ctxt : str; cspace : bool; cshebang : bool; cinline : bool }.
Inductive triv := EmptyLine | Linebreak | TC (c : comment).
Inductive ast :=
| AAtom (text : str) (before after : list triv)
| ABind (name : str) (value : ast) (value_gap : str) (before after : list triv)
| ASet (values : list ast) (multiline recursive : bool) (inner before after : list triv)
| AList (values : list ast) (multiline : bool) (inner before after : list triv).

Definition a_before (a : ast) := match a with AAtom _ b _ | ABind _ _ _ b _ | ASet _ _ _ _ b _ | AList _ _ _ b _ => b end.
Definition a_after (a : ast) := match a with AAtom _ _ x | ABind _ _ _ _ x | ASet _ _ _ _ _ x | AList _ _ _ _ x => x end.
Definition set_before (a : ast) (b : list triv) : ast :=
  match a with
  | AAtom t _ x => AAtom t b x | ABind n v g _ x => ABind n v g b x
  | ASet vs m r i _ x => ASet vs m r i b x | AList vs m i _ x => AList vs m i b x end.
Definition set_after (a : ast) (x : list triv) : ast :=
  match a with
  | AAtom t b _ => AAtom t b x | ABind n v g b _ => ABind n v g b x
  | ASet vs m r i b _ => ASet vs m r i b x | AList vs m i b _ => AList vs m i b x end.

(* ---------- comment.py ---------- *)
Definition starts (p x : str) : bool :=
  (fix go (p x : str) := match p, x with [], _ => true | a :: p', b :: x' => (a =c b) && go p' x' | _, _ => false end) p x.
Definition comment_from_cst (raw : str) : comment :=
  if starts (s "/*") raw then
    let doc := starts (s "/**") raw in
    let inner := removelast (removelast (skipn (if doc then 3 else 2) raw)) in
    {| ck := if doc then KDoc else KBlock; ctxt := strip inner; cspace := true; cshebang := false; cinline := false |}
  else if starts (s "#!") raw then
    {| ck := KLine; ctxt := skipn 2 raw; cspace := true; cshebang := true; cinline := false |}
  else
    let t := skipn 1 raw in
    match t with
    | " " :: t' => {| ck := KLine; ctxt := t'; cspace := true; cshebang := false; cinline := false |}
    | _ => {| ck := KLine; ctxt := t; cspace := false; cshebang := false; cinline := false |}
    end.
Definition comment_str (c : comment) : str :=
  if cshebang c then "#" :: "!" :: ctxt c
  else match ctxt c with [] => ["#"] | t => (if cspace c then ["#"; " "] else ["#"]) ++ t end.
Definition comment_rebuild (c : comment) (indent : nat) : str :=
  match ck c with
  | KLine => sp (if cinline c then 0 else indent) ++ comment_str c
  | KBlock => sp (if cinline c then 0 else indent) ++ s "/* " ++ ctxt c ++ s " */"
  | KDoc => sp (if cinline c then 0 else indent) ++ s "/** " ++ ctxt c ++ s " */"
  end.
Definition mk_inline (c : comment) : comment :=
  {| ck := ck c; ctxt := ctxt c; cspace := cspace c; cshebang := cshebang c; cinline := true |}.

(* ---------- trivia.py ---------- *)
Fixpoint format_trivia (l : list triv) (indent : nat) : str :=
  match l with
  | [] => []
  | EmptyLine :: r => LF :: format_trivia r indent
  | Linebreak :: r => format_trivia r indent
  | TC c :: r => comment_rebuild c indent ++ LF :: format_trivia r indent
  end.
Definition is_layout (t : triv) := match t with TC _ => false | _ => true end.
Definition trim_trailing (l : list triv) (r : str) : str :=
  match rev l with t :: _ => if negb (is_layout t) && ends_nl r then removelast r else r | [] => r end.
Definition nl_prefix (x : str) : str := match x with [] => [] | _ => LF :: x end.
Definition apply_trailing (rebuilt : str) (after : list triv) (indent : nat) : str :=
  match after with
  | [] => rebuilt
  | TC c :: r =>
      if cinline c then
        rebuilt ++ " " :: comment_rebuild c 0 ++ nl_prefix (trim_trailing after (format_trivia r indent))
      else rebuilt ++ nl_prefix (trim_trailing after (format_trivia after indent))
  | _ => rebuilt ++ nl_prefix (trim_trailing after (format_trivia after indent))
  end.
Definition gap_trivia (g : str) : list triv :=
  if has_empty_line g then [EmptyLine] else if has_nl g then [Linebreak] else [].

(* ---------- reader: parse_delimited_sequence + per-node from_cst (structural) ---------- *)
Definition is_cmt (c : cnode) := match c with CCmt _ => true | _ => false end.
Definition is_bind (c : cnode) := match c with CBind _ _ _ _ _ => true | _ => false end.
Definition craw (c : cnode) : str := match c with CCmt r => r | _ => [] end.

Definition append_after (items : list ast) (extra : list triv) : list ast :=
  match rev items with
  | last :: r => rev r ++ [set_after last (a_after last ++ extra)]
  | [] => items end.

(* children are pre-converted: (gap, concrete child, its ast) *)
Notation kid := (str * cnode * ast)%type.
Fixpoint pds (inline_needs_binding : bool) (content : list kid) (items : list ast) (before : list triv)
             (prev : option cnode) : list ast * list triv :=
  match content with
  | [] => (items, before)
  | (g, c, a) :: rest =>
      let pushed := match prev with Some _ => before ++ gap_trivia g | None => before end in
      if is_cmt c then
        let can_inline :=
          match prev with
          | Some p => (if inline_needs_binding then is_bind p else true) && negb (has_nl g)
                      && negb (match items with [] => true | _ => false end)
          | None => false end in
        if can_inline then
          pds inline_needs_binding rest (append_after items [TC (mk_inline (comment_from_cst (craw c)))]) pushed (Some c)
        else pds inline_needs_binding rest items (pushed ++ [TC (comment_from_cst (craw c))]) (Some c)
      else pds inline_needs_binding rest (items ++ [set_before a (pushed ++ a_before a)]) [] (Some c)
  end.
Definition parse_seq (inb : bool) (content : list kid) (close_gap : option str) (has_open : bool) (initial : list triv)
  : list ast * list triv :=
  let before0 := initial ++
    match content with
    | (g0, _, _) :: _ => if has_open && has_empty_line g0 then [EmptyLine] else []
    | [] => [] end in
  let '(items, before) := pds inb content [] before0 None in
  let '(items1, inner) :=
    match before, items with
    | [], _ => (items, [])
    | _, _ :: _ => (append_after items before, [])
    | _, [] => (items, before)
    end in
  match content, close_gap with
  | _ :: _, Some cg =>
      if has_empty_line cg then
        match items1 with
        | _ :: _ => (append_after items1 [EmptyLine], inner)
        | [] => (items1, inner ++ [EmptyLine]) end
      else (items1, inner)
  | _, _ => (items1, inner)
  end.

Fixpoint from_cst (c : cnode) : ast :=
  match c with
  | CAtom isint t => AAtom (if isint then strip_zeros t else t) [] []
  | CCmt raw => AAtom raw [] []   (* placeholder, never used as an item *)
  | CBind n g1 g2 v g3 =>
      let value := from_cst v in
      ABind n (set_before value (gap_trivia g2 ++ a_before value)) g2 [] []
  | CSet r gr body cg =>
      let kids := (fix conv (l : list (str * cnode)) : list kid :=
                     match l with [] => [] | (g, n) :: t => (g, n, from_cst n) :: conv t end) body in
      let '(values, inner) := parse_seq true kids (Some cg) true [] in
      let inner' := match values, inner, body with
                    | [], [], [] => if has_empty_line cg then [EmptyLine] else []
                    | _, _, _ => inner end in
      ASet values (has_nl (ctext c)) r inner' [] []
  | CList body cg =>
      let kids := (fix conv (l : list (str * cnode)) : list kid :=
                     match l with [] => [] | (g, n) :: t => (g, n, from_cst n) :: conv t end) body in
      let '(values, inner) := parse_seq false kids (Some cg) true [] in
      let inner' := match values, inner, body with
                    | [], [], [] => if has_empty_line cg then [EmptyLine] else []
                    | _, _, _ => inner end in
      AList values (has_nl (ctext c)) inner' [] []
  end.

Record afile := { af_exprs : list ast; af_trailing : list triv }.
Definition from_cst_file (f : cfile) : afile :=
  let children := f_children f in
  let leading := match children with (g0, _) :: _ => gap_trivia g0 | [] => [] end in
  let kids := map (fun '(g, n) => (g, n, from_cst n)) children in
  let '(exprs, trailing) := parse_seq false kids None false leading in
  {| af_exprs := exprs; af_trailing := trailing ++ gap_trivia (f_tail f) |}.

(* ---------- printer ---------- *)
Definition add_trivia (body : str) (before after : list triv) (indent : nat) (inline : bool) : str :=
  apply_trailing (format_trivia before indent ++ (if inline then [] else sp indent) ++ body) after indent.
Definition has_comment (l : list triv) := existsb (fun t => negb (is_layout t)) l.
Definition lead (b : list triv) (indent : nat) (inline : bool) : str :=
  format_trivia b indent ++ (if inline then [] else sp indent).
Definition closing_sep (x : str) : str := if ends_nl x then [] else [LF].

(* [oa]: model_copy(update={"after": ...}) without leaving structural recursion *)
Fixpoint rebuild (a : ast) (oa : option (list triv)) (indent : nat) (inline : bool) : str :=
  let x := match oa with Some x' => x' | None => a_after a end in
  match a with
  | AAtom t b _ => add_trivia t b x indent inline
  | ABind name value vgap b _ =>
      let on_nl0 := has_nl vgap in
      let vafter := a_after value in
      let force := negb on_nl0 && has_comment (a_before value) in
      let on_nl := on_nl0 || force in
      let val_indent := if on_nl0 then indent_from_gap vgap else if force then indent + 2 else indent in
      let vstr := rstrip_nl (rebuild value (Some []) val_indent (negb on_nl)) in
      let core := name ++ s " =" ++ (if on_nl then [LF] else [" "]) ++ vstr ++ [";"] in
      let rebuilt := lead b indent inline ++ core in
      let after_items := vafter ++ x in
      match after_items with
      | Linebreak :: rest =>
          let tr := format_trivia rest indent in
          let tr1 := match tr with c :: _ => if c =c LF then tr else LF :: tr | [] => [LF] end in
          rebuilt ++ (if ends_nl tr1 then removelast tr1 else tr1)
      | _ => apply_trailing rebuilt after_items indent
      end
  | ASet values multiline recursive inner b _ =>
      let prefix := if recursive then s "rec " else [] in
      match values with
      | [] =>
          match inner with
          | [] => add_trivia (prefix ++ s "{ }") b x indent inline
          | _ =>
              let inner_str := format_trivia inner (indent + 2) in
              let closing := match inner_str with [] => [] | _ => closing_sep inner_str end in
              apply_trailing (lead b indent inline ++ prefix ++ "{" :: LF :: inner_str ++ closing ++ sp indent ++ ["}"]) x indent
          end
      | _ =>
          if multiline then
            let bs := join [LF] (map (fun v => rebuild v None (indent + 2) false) values) in
            apply_trailing (lead b indent inline ++ prefix ++ "{" :: LF :: bs ++ closing_sep bs ++ sp indent ++ ["}"]) x indent
          else
            let bs := join [" "] (map (fun v => rebuild v None (indent + 2) true) values) in
            add_trivia (prefix ++ s "{ " ++ bs ++ s " }") b x indent inline
      end
  | AList values multiline inner b _ =>
      match values with
      | [] =>
          match inner with
          | [] => apply_trailing (lead b indent inline ++ s "[ ]") x indent
          | _ =>
              let inner_str := format_trivia inner (indent + 2) in
              let closing := match inner_str with [] => [] | _ => closing_sep inner_str end in
              apply_trailing (lead b indent inline ++ "[" :: LF :: inner_str ++ closing ++ sp indent ++ ["]"]) x indent
          end
      | _ =>
          if multiline then
            let items := join [LF] (map (fun v => rebuild v None (indent + 2) false) values) in
            apply_trailing (lead b indent inline ++ "[" :: LF :: items ++ closing_sep items ++ sp indent ++ ["]"]) x indent
          else
            let items := join [" "] (map (fun v => rebuild v None indent true) values) in
            apply_trailing (lead b indent inline ++ s "[ " ++ items ++ s " ]") x indent
      end
  end.

Definition rebuild_file (f : afile) : str :=
  let rebuilt := flat_map (fun e => rebuild e None 0 false) (af_exprs f) in
  match af_trailing f with
  | [] => rebuilt
  | tr =>
      let tstr := trim_trailing tr (format_trivia tr 0) in
      match tstr with
      | _ :: _ => rebuilt ++ (match rebuilt with [] => [] | _ => [LF] end) ++ tstr
      | [] => match rev tr with
              | t :: _ => if is_layout t then rebuilt ++ closing_sep rebuilt else rebuilt
              | [] => rebuilt end
      end
  end.

Definition roundtrip (f : cfile) : str := rebuild_file (from_cst_file f).

(* Design spike for C12/C13: how Nix reads a double-quoted string body, and the theorem that it
   reads back exactly what the escaper writes, for ALL strings. *)
From Coq Require Import List Ascii String Bool Arith Lia.
Import ListNotations.
Open Scope char_scope.
Notation str := (list ascii).
Definition LF : ascii := "010". Definition CR : ascii := "013". Definition TAB : ascii := "009".
Definition BS : ascii := "\". Definition DQ : ascii := """".
Notation "a =c b" := (Ascii.eqb a b) (at level 70).

(* structural twin of primitive.py:_escape_nix_string (see npath_escape_refinement.v for the
   refinement from the generated loop) *)
Fixpoint escape_spec (interp : bool) (s : str) : str :=
  match s with
  | [] => []
  | ch :: rest1 =>
    if ch =c BS then BS :: BS :: escape_spec interp rest1
    else if ch =c DQ then BS :: DQ :: escape_spec interp rest1
    else if ch =c LF then BS :: "n" :: escape_spec interp rest1
    else if ch =c CR then BS :: "r" :: escape_spec interp rest1
    else if ch =c TAB then BS :: "t" :: escape_spec interp rest1
    else match rest1 with
         | c2 :: r2 => if interp && (ch =c "$") && (c2 =c "{")
                       then BS :: "$" :: "{" :: escape_spec interp r2
                       else ch :: escape_spec interp rest1
         | [] => ch :: escape_spec interp rest1
         end
  end.

(* SPEC: Nix's lexer for the body of "..." without interpolation.
   flex: ([^\$\"\\] | \$[^\{\"\\] | \\{ANY} | \$\\{ANY})*  followed by unescapeStr;
   None = the body does not lex as a single literal (unescaped quote, interpolation, dangling \). *)
Definition unesc (c : ascii) : ascii :=
  if c =c "n" then LF else if c =c "r" then CR else if c =c "t" then TAB else c.
Fixpoint nix_read (s : str) : option str :=
  match s with
  | [] => Some []
  | c :: r =>
    if c =c BS then
      match r with
      | [] => None
      | e :: r' => option_map (cons (unesc e)) (nix_read r')
      end
    else if c =c DQ then None
    else if c =c "$" then
      match r with
      | [] => Some ["$"]
      | d :: r' =>
        if d =c "{" then None
        else if d =c DQ then None
        else if d =c BS then
          match r' with
          | [] => None
          | e :: r'' => option_map (fun x => "$" :: unesc e :: x) (nix_read r'')
          end
        else option_map (fun x => "$" :: d :: x) (nix_read r')
      end
    else option_map (cons c) (nix_read r)
  end.

(* character classes *)
Definition special (c : ascii) : bool := (c =c BS) || (c =c DQ) || (c =c LF) || (c =c CR) || (c =c TAB).
Lemma eqb_false_neq a b : (a =c b) = false -> a <> b.
Proof. intros H E. subst. rewrite Ascii.eqb_refl in H. discriminate. Qed.

(* head of the escaped text of a non-empty string, by cases on the first character *)
Lemma escape_cons_special interp c rest :
  special c = true ->
  exists e, escape_spec interp (c :: rest) = BS :: e :: escape_spec interp rest /\ unesc e = c.
Proof.
  unfold special. intros H. cbn [escape_spec].
  destruct (c =c BS) eqn:E1. { apply Ascii.eqb_eq in E1. subst. exists BS. split; reflexivity. }
  destruct (c =c DQ) eqn:E2. { apply Ascii.eqb_eq in E2. subst. exists DQ. split; reflexivity. }
  destruct (c =c LF) eqn:E3. { apply Ascii.eqb_eq in E3. subst. exists "n". split; reflexivity. }
  destruct (c =c CR) eqn:E4. { apply Ascii.eqb_eq in E4. subst. exists "r". split; reflexivity. }
  destruct (c =c TAB) eqn:E5. { apply Ascii.eqb_eq in E5. subst. exists "t". split; reflexivity. }
  discriminate.
Qed.
Lemma escape_cons_plain c rest :
  special c = false -> (c =c "$") = false ->
  escape_spec true (c :: rest) = c :: escape_spec true rest.
Proof.
  unfold special. intros H Hd. cbn [escape_spec].
  destruct (c =c BS); [discriminate|]. destruct (c =c DQ); [discriminate|].
  destruct (c =c LF); [discriminate|]. destruct (c =c CR); [discriminate|]. destruct (c =c TAB); [discriminate|].
  rewrite Hd. destruct rest; reflexivity.
Qed.
Lemma escape_dollar_brace rest : escape_spec true ("$" :: "{" :: rest) = BS :: "$" :: "{" :: escape_spec true rest.
Proof. reflexivity. Qed.
Lemma escape_dollar_other d rest : (d =c "{") = false ->
  escape_spec true ("$" :: d :: rest) = "$" :: escape_spec true (d :: rest).
Proof. intros H. cbn [escape_spec]. cbn. rewrite H. reflexivity. Qed.
Lemma escape_dollar_end : escape_spec true ["$"] = ["$"].
Proof. reflexivity. Qed.

Lemma nix_read_plain c r : special c = false -> (c =c "$") = false ->
  nix_read (c :: r) = option_map (cons c) (nix_read r).
Proof.
  unfold special. intros H Hd. cbn [nix_read].
  destruct (c =c BS); [discriminate|]. destruct (c =c DQ); [discriminate|]. rewrite Hd. reflexivity.
Qed.

Lemma nix_read_bs e r : nix_read (BS :: e :: r) = option_map (cons (unesc e)) (nix_read r).
Proof. reflexivity. Qed.
Lemma nix_read_dollar_bs e r : nix_read ("$" :: BS :: e :: r) = option_map (fun x => "$" :: unesc e :: x) (nix_read r).
Proof. reflexivity. Qed.
Lemma nix_read_dollar_plain d r : (d =c "{") = false -> (d =c DQ) = false -> (d =c BS) = false ->
  nix_read ("$" :: d :: r) = option_map (fun x => "$" :: d :: x) (nix_read r).
Proof. intros H1 H2 H3. cbn [nix_read]. cbn. rewrite H1, H2, H3. reflexivity. Qed.

Theorem read_escape : forall s, nix_read (escape_spec true s) = Some s.
Proof.
  intros s. remember (List.length s) as n eqn:Hn. revert s Hn.
  induction n as [n IH] using lt_wf_ind. intros s Hn.
  assert (IH' : forall t, List.length t < n -> nix_read (escape_spec true t) = Some t).
  { intros t Ht. apply (IH (List.length t) Ht t eq_refl). }
  clear IH. subst n.
  destruct s as [|c rest]; [reflexivity|].
  destruct (special c) eqn:Esp.
  - destruct (escape_cons_special true c rest Esp) as [e [-> He]].
    rewrite nix_read_bs, IH' by (cbn; lia). cbn. now rewrite He.
  - destruct (c =c "$") eqn:Ed.
    2:{ rewrite escape_cons_plain by assumption. rewrite nix_read_plain by assumption.
        rewrite IH' by (cbn; lia). reflexivity. }
    apply Ascii.eqb_eq in Ed. subst c.
    destruct rest as [|d r2]; [reflexivity|].
    destruct (d =c "{") eqn:Eb.
    { apply Ascii.eqb_eq in Eb. subst d. rewrite escape_dollar_brace.
      rewrite nix_read_bs. change (unesc "$") with "$".
      rewrite nix_read_plain by reflexivity. rewrite IH' by (cbn; lia). reflexivity. }
    rewrite escape_dollar_other by exact Eb.
    destruct (special d) eqn:Esd.
    { destruct (escape_cons_special true d r2 Esd) as [e [-> He]].
      rewrite nix_read_dollar_bs, IH' by (cbn; lia). cbn. now rewrite He. }
    destruct (d =c "$") eqn:Edd.
    { apply Ascii.eqb_eq in Edd. subst d.
      destruct r2 as [|d3 r3]; [reflexivity|].
      destruct (d3 =c "{") eqn:Eb3.
      - apply Ascii.eqb_eq in Eb3. subst d3. rewrite escape_dollar_brace.
        rewrite nix_read_dollar_bs. change (unesc "$") with "$".
        rewrite nix_read_plain by reflexivity. rewrite IH' by (cbn; lia). reflexivity.
      - rewrite escape_dollar_other by exact Eb3.
        (* "$" :: "$" :: escape (d3 :: r3): the lexer consumes "$$" as one unit *)
        rewrite nix_read_dollar_plain by reflexivity. rewrite IH' by (cbn; lia). reflexivity. }
    rewrite (escape_cons_plain d r2 Esd Edd).
    unfold special in Esd.
    destruct (d =c BS) eqn:E1; [discriminate|]. destruct (d =c DQ) eqn:E2; [discriminate|].
    rewrite nix_read_dollar_plain by assumption. rewrite IH' by (cbn; lia). reflexivity.
Qed.
Print Assumptions read_escape.

(* ---- C13: ordinary string values (escape_interpolation = False), strings without "${" ---- *)
Fixpoint no_interp (s : str) : bool :=
  match s with
  | c :: ((d :: _) as r) => negb ((c =c "$") && (d =c "{")) && no_interp r
  | _ => true
  end.
Lemma escape_false_cons_plain c rest :
  special c = false -> escape_spec false (c :: rest) = c :: escape_spec false rest.
Proof.
  unfold special. intros H. cbn [escape_spec].
  destruct (c =c BS); [discriminate|]. destruct (c =c DQ); [discriminate|].
  destruct (c =c LF); [discriminate|]. destruct (c =c CR); [discriminate|]. destruct (c =c TAB); [discriminate|].
  destruct rest; reflexivity.
Qed.
Lemma no_interp_tail c r : no_interp (c :: r) = true -> no_interp r = true.
Proof. destruct r as [|d r']; [reflexivity|]. cbn [no_interp]. intros H. apply andb_prop in H. apply H. Qed.

Theorem read_escape_value : forall s, no_interp s = true -> nix_read (escape_spec false s) = Some s.
Proof.
  intros s. remember (List.length s) as n eqn:Hn. revert s Hn.
  induction n as [n IH] using lt_wf_ind. intros s Hn Hni.
  assert (IH' : forall t, List.length t < n -> no_interp t = true -> nix_read (escape_spec false t) = Some t).
  { intros t Ht Hnt. apply (IH (List.length t) Ht t eq_refl Hnt). }
  clear IH. subst n.
  destruct s as [|c rest]; [reflexivity|].
  pose proof (no_interp_tail c rest Hni) as Hrest.
  destruct (special c) eqn:Esp.
  - destruct (escape_cons_special false c rest Esp) as [e [-> He]].
    rewrite nix_read_bs, IH' by (cbn; lia || assumption). cbn. now rewrite He.
  - rewrite (escape_false_cons_plain c rest Esp).
    destruct (c =c "$") eqn:Ed.
    2:{ rewrite nix_read_plain by assumption. rewrite IH' by (cbn; lia || assumption). reflexivity. }
    apply Ascii.eqb_eq in Ed. subst c.
    destruct rest as [|d r2]; [reflexivity|].
    assert (Eb : (d =c "{") = false).
    { cbn [no_interp] in Hni. apply andb_prop in Hni. destruct Hni as [H _]. change ("$" =c "$") with true in H.
      cbn [andb negb] in H. destruct (d =c "{"); [discriminate|reflexivity]. }
    pose proof (no_interp_tail d r2 Hrest) as Hr2.
    destruct (special d) eqn:Esd.
    { destruct (escape_cons_special false d r2 Esd) as [e [-> He]].
      rewrite nix_read_dollar_bs, IH' by (cbn; lia || assumption). cbn. now rewrite He. }
    rewrite (escape_false_cons_plain d r2 Esd).
    unfold special in Esd.
    destruct (d =c BS) eqn:E1; [discriminate|]. destruct (d =c DQ) eqn:E2; [discriminate|].
    rewrite nix_read_dollar_plain by assumption. rewrite IH' by (cbn; lia || assumption). reflexivity.
Qed.
Print Assumptions read_escape_value.

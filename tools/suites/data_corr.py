"""C13 correspondence: Python data values (None, bool, int, str, nested lists and dicts with identifier keys) are handed
to the construction API (AttributeSet / NixList constructors, from_dict, item assignment); the emitted text is tokenised
by the real tree-sitter into a token tree (string bodies and names as written, integers with their sign, order kept) and
compared inside Coq with Dyn.DataRender.of_py of the same value; denote (of_py v) = Some v is evaluated as well.
usage: data_corr.py SEED N OUTDIR PREFIX"""
import json, os, random, sys
from common import write_shards, cs
seed, N, outdir, prefix = int(sys.argv[1]), int(sys.argv[2]), sys.argv[3], sys.argv[4]
from nix_manipulator import parse
from nix_manipulator.parser import parse_to_ast
from nix_manipulator.expressions.set import AttributeSet
from nix_manipulator.expressions.list import NixList
R = random.Random(seed)
CH = list('ab \t\n\r"\\$\'{}#;=.-') + ['$$', "''", '\\n', '$ {', '$"', '$\\', 'é']
KEYS = ['a', 'b', 'name', 'meta', 'x1', "k'", '_u', 'version', 'or']
def string(): return ''.join(R.choice(CH) for _ in range(R.randint(0, 7))).replace('${', '$ {')
def scalar():
    k = R.randrange(5)
    return [string, lambda: R.choice([0, 1, 7, 42, 10 ** 6, 2 ** 62, -3, -1000, R.randrange(0, 1000)]), lambda: R.random() < 0.5, lambda: None, string][k]()
def lst(depth):
    out = []
    for _ in range(R.randint(0, 4)):
        x = scalar() if depth <= 0 or R.random() < 0.8 else lst(depth - 1)
        if isinstance(x, int) and not isinstance(x, bool) and x < 0: x = -x        # negative list elements: finding F-14
        out.append(x)
    return out
def dct(depth):
    out = {}
    for k in R.sample(KEYS, R.randint(0, 4)):
        r = R.random(); out[k] = scalar() if r < 0.55 else lst(1) if r < 0.8 else dct(depth - 1) if depth > 0 else scalar()
    return out
def coq_v(v):
    if v is None: return 'PNone'
    if isinstance(v, bool): return 'PBool %s' % ('true' if v else 'false')
    if isinstance(v, int): return 'PInt (%d)%%Z' % v
    if isinstance(v, str): return 'PStr %s' % cs(v)
    if isinstance(v, list): return 'PList [%s]' % '; '.join(coq_v(x) for x in v)
    return 'PDict [%s]' % '; '.join('(%s, %s)' % (cs(k), coq_v(x)) for k, x in v.items())
class Bad(Exception): pass
def tok(n):
    t = n.type
    if t == 'parenthesized_expression': return tok(n.child_by_field_name('expression'))
    if t == 'integer_expression': return 'TInt (%d)%%Z' % int(n.text)
    if t == 'unary_expression' and n.child_by_field_name('operator').text == b'-' and n.child_by_field_name('argument').type == 'integer_expression':
        return 'TInt (%d)%%Z' % -int(n.child_by_field_name('argument').text)
    if t == 'variable_expression':
        x = n.text.decode()
        if x == 'null': return 'TNull'
        if x in ('true', 'false'): return 'TBool %s' % x
        raise Bad(x)
    if t == 'string_expression': return 'TStr %s' % cs(n.text[1:-1])
    if t == 'list_expression': return 'TList [%s]' % '; '.join(tok(c) for c in n.children if c.type not in ('[', ']'))
    if t == 'attrset_expression':
        items = []
        for c in n.children:
            if c.type == 'binding_set':
                for b in c.children: items.append('(%s, %s)' % (cs(b.child_by_field_name('attrpath').text), tok(b.child_by_field_name('expression'))))
        return 'TSet [%s]' % '; '.join(items)
    raise Bad(t)
rows, stats, samples = [], {}, []
while len(rows) < N:
    ctx = R.choice(['ctor', 'from_dict', 'list', 'assign'])
    if ctx == 'ctor': v = dct(2); text = AttributeSet(values=v).rebuild()
    elif ctx == 'from_dict': v = dct(2); text = AttributeSet.from_dict(v).rebuild()
    elif ctx == 'list': v = lst(2); text = NixList(value=v).rebuild()
    else:
        x = R.choice([scalar, lambda: lst(1), lambda: dct(1)])(); v = {'a': 1, 'k': x}
        s = parse('{ a = 1; }'); s['k'] = x; text = s.rebuild()
    root = parse_to_ast(text)
    if root.has_error: stats['unparsable'] = stats.get('unparsable', 0) + 1; continue
    try: t = tok([c for c in root.children if c.type != 'comment'][0])
    except Exception: stats['not-data'] = stats.get('not-data', 0) + 1; continue
    stats[ctx] = stats.get(ctx, 0) + 1
    rows.append('(%s, %s)' % (coq_v(v), t))
    if len(samples) < 3: samples.append({'context': ctx, 'value': repr(v), 'text': text})
HDR = ('From Coq Require Import List Ascii String Bool Arith ZArith. Import ListNotations.\nFrom Dyn Require Import Gen DataRender.\nFrom Lex Require Import NixLex NixAttr.\n'
       'Fixpoint tok_eqb (a b : tok) {struct a} : bool :=\n  match a, b with\n  | TNull, TNull => true | TBool x, TBool y => Bool.eqb x y | TInt x, TInt y => Z.eqb x y | TStr x, TStr y => streq x y\n'
       '  | TList x, TList y => (fix go (x y : list tok) : bool := match x, y with [], [] => true | p :: x\', q :: y\' => tok_eqb p q && go x\' y\' | _, _ => false end) x y\n'
       '  | TSet x, TSet y => (fix go (x y : list (str * tok)) : bool := match x, y with [], [] => true | (k, p) :: x\', (k\', q) :: y\' => streq k k\' && tok_eqb p q && go x\' y\' | _, _ => false end) x y\n'
       '  | _, _ => false end.\n')
OK = "Definition ok (c : pyv * tok) : bool := tok_eqb (of_py (fst c)) (snd c) && (negb (in_domain (fst c)) || match denote (of_py (fst c)) with Some _ => true | None => false end).\n"
write_shards(outdir, prefix, HDR, 'pyv * tok', OK, rows, 8)
json.dump({'stats': stats, 'keys': [], 'distinct_count': len(set(rows)),
           'rule': 'nested data values (strings over the characters that need escaping, ints, bools, None, lists, dicts with identifier keys) in four construction contexts; the emitted text is tokenised by tree-sitter and compared with of_py',
           'samples': samples}, open(os.path.join(outdir, prefix + '_summary.json'), 'w'))
print(len(rows))

(* C16 — the command line reports and emits exactly what the library computes.
   `arms` (Dyn.CliGen) is REGENERATED from cli/main.py on this run; Cli.CliIR interprets it.  The library is abstract:
   every theorem holds for every behaviour of parse / set_value / remove_value / contains_error / rebuild. *)
From Coq Require Import List String Bool. Import ListNotations. Open Scope string_scope.
From Cli Require Import CliIR.
From Dyn Require Import CliGen CliProps.

Section C16.
  Variable doc : Type.
  Variables (lib_parse : string -> doc) (lib_set : doc -> string -> string -> option string)
            (lib_rm : doc -> string -> option string) (lib_err : doc -> bool) (lib_rebuild : doc -> string).
  Notation main' := (main doc lib_parse lib_set lib_rm lib_err lib_rebuild arms).

  (* test: OK / 0 exactly when there is no syntax error and the text is reproduced byte for byte, else Fail / 1 *)
  Theorem C16_test i :
    let d := lib_parse (stdin_text i) in
    main' "test" i =
    if negb (lib_err d) && str_eq (stdin_text i) (lib_rebuild d) then Done ("OK" ++ nl) false 0 else Done ("Fail" ++ nl) false 1.
  Proof. exact (CliProps.C16_test doc lib_parse lib_set lib_rm lib_err lib_rebuild i). Qed.

  (* set / rm: stdout is the library text, terminated only when it lacks a terminator, status 0;
     a refused edit (the call raises) leaves stdout empty and exits 1 *)
  Theorem C16_set i :
    main' "set" i =
    match lib_set (lib_parse (stdin_text i)) (a_npath i) (a_value i) with
    | Some r => Done (terminate r) false 0
    | None => Done "" true 1 end.
  Proof. exact (CliProps.C16_set doc lib_parse lib_set lib_rm lib_err lib_rebuild i). Qed.
  Theorem C16_rm i :
    main' "rm" i =
    match lib_rm (lib_parse (stdin_text i)) (a_npath i) with
    | Some r => Done (terminate r) false 0
    | None => Done "" true 1 end.
  Proof. exact (CliProps.C16_rm doc lib_parse lib_set lib_rm lib_err lib_rebuild i). Qed.

  (* any other command word: nothing on stdout, status 2 *)
  Theorem C16_unknown i cmd : cmd <> "shell" -> cmd <> "set" -> cmd <> "rm" -> cmd <> "test" -> main' cmd i = Done "" true 2.
  Proof. exact (CliProps.C16_unknown doc lib_parse lib_set lib_rm lib_err lib_rebuild i cmd). Qed.
End C16.
Print Assumptions C16_test.
Print Assumptions C16_set.
Print Assumptions C16_rm.
Print Assumptions C16_unknown.

(* "adding a line terminator only when that text lacks one": what is written always ends in a newline, a result that
   already ends in one is written unchanged (one final newline stays one), otherwise exactly one is added *)
Theorem C16_terminate r : (exists p, terminate r = p ++ nl) /\ ((exists p, r = p ++ nl) -> terminate r = r) /\
                          ((~ exists p, r = p ++ nl) -> terminate r = r ++ nl).
Proof. exact (CliProps.terminate_spec r). Qed.
Print Assumptions C16_terminate.

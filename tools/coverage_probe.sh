#!/bin/sh
# maintenance tool (by hand): run the quick checks with coverage measurement of /repo/nix_manipulator switched on for every suite and
# search subprocess, combine, and list the source lines no check executes — blind spots of the generators.
# usage: tools/coverage_probe.sh [Cxx ...]    (default: all twenty)   -> /tmp/scratch/cov/report.txt
cov=/tmp/scratch/cov; rm -rf $cov; mkdir -p $cov
cd /verif
for p in ${*:-$(seq -f 'C%02g' 1 20)}; do
  VERIF_COVERAGE=$cov VERIF_EVIDENCE_DIR=/verif/build/evidence-under-patch timeout 3000 ./check $p --tier quick 2>&1 | grep -v "^WARNING conda\|^KNOWN-FINDING" | tail -1
done
cd $cov && /venv/bin/python -W ignore -m coverage combine --data-file=$cov/.coverage $cov >/dev/null 2>&1
/venv/bin/python -W ignore -m coverage report --data-file=$cov/.coverage -m --skip-empty > $cov/report.txt 2>&1
tail -45 $cov/report.txt | cut -c1-200

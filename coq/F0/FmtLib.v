(* Vocabulary of tools/fmt2v.py: the items a trivia list may hold, with the observations format_trivia makes of them.
   Assertion items (an `assert` kept as trivia) are outside the model: they are IOther, on which the generated function fails
   as the Python raises NotImplementedError for an unknown item. *)
From Coq Require Import List Ascii Bool Arith.
Import ListNotations.
From F0 Require Import F0s GapLib.

Inductive titem := IEmpty | ILine | IComma | ICmt (c : comment) | IOther.
Definition of_triv (t : triv) : titem := match t with EmptyLine => IEmpty | Linebreak => ILine | TC c => ICmt c end.
Definition is_empty_item (i : titem) : bool := match i with IEmpty => true | _ => false end.
Definition is_line_item (i : titem) : bool := match i with ILine => true | _ => false end.
Definition is_comma_item (i : titem) : bool := match i with IComma => true | _ => false end.
Definition is_cmt_item (i : titem) : bool := match i with ICmt _ => true | _ => false end.
Definition set_inline (b : bool) (c : comment) : comment :=
  {| ck := ck c; ctxt := ctxt c; cspace := cspace c; cshebang := cshebang c; cinline := b |}.
(* getattr(item, "inline", False) *)
Definition item_inline (i : titem) : bool := match i with ICmt c => cinline c | _ => false end.
(* dataclasses.replace(item, inline=False) *)
Definition item_not_inline (i : titem) : titem := match i with ICmt c => ICmt (set_inline false c) | x => x end.
(* item.rebuild(indent=indent) *)
Definition item_rebuild (i : titem) (indent : nat) : str := match i with ICmt c => comment_rebuild c indent | _ => [] end.
(* observations of an optional item (the look-ahead `next_item`) *)
Definition opt_is (p : titem -> bool) (o : option titem) : bool := match o with Some i => p i | None => false end.
Definition opt_none (o : option titem) : bool := match o with None => true | Some _ => false end.

"""Design spike: is the text-level frame claim of C04 true of the implementation on canonical F0 docs?"""
import sys, random, collections
sys.path.insert(0,'/repo')
from nix_manipulator import parse
from nix_manipulator.parser import parse_to_ast
from nix_manipulator.cli.manipulations import set_value, remove_value
seed=int(sys.argv[1]); N=int(sys.argv[2])
sys.argv=[sys.argv[0], str(seed), '0']
exec(open('notes/probes/gen_canon.py').read().split('bad=0')[0])
R2=random.Random(seed+7)
def bindings_of(setnode):
    out=[]
    for c in setnode.children:
        if c.type=='binding_set':
            out += [b for b in c.children if b.type=='binding']
    return out
def collect(setnode, prefix, acc):
    """all addressable (path, binding node) pairs through nested explicit sets and attrpaths"""
    for b in bindings_of(setnode):
        ap = b.child_by_field_name('attrpath'); val = b.child_by_field_name('expression')
        segs = [a.text.decode() for a in ap.children if a.type!='.']
        path = prefix+segs
        acc.append((path, b, val))
        if val.type in ('attrset_expression','rec_attrset_expression') and len(segs)==1:
            collect(val, path, acc)
st=collections.Counter(); shown=collections.Counter()
def show(kind, *xs):
    if shown[kind]<2:
        shown[kind]+=1; print('=====',kind); [print(repr(x)) for x in xs]
for i in range(N):
    d = doc(); b = d.encode()
    root = parse_to_ast(d); top = [c for c in root.children if c.type!='comment'][0]
    acc=[]; collect(top, [], acc)
    # skip docs where some path prefix is ambiguous (attrpath families mixing) - keep simple: unique paths
    paths = ['.'.join(p) for p,_,_ in acc]
    path, bn, val = R2.choice(acc)
    ps='.'.join(path)
    if paths.count(ps)>1: st['dup-path']+=1; continue
    op = R2.choice(['set','rm','new'])
    try:
        if op=='set':
            new = R2.choice(['99','"new"','newIdent','./n.nix'])
            out = set_value(parse(d), ps, new)
            exp = (b[:val.start_byte] + new.encode() + b[val.end_byte:]).decode()
            if out==exp: st['set-ok']+=1
            else: st['set-DIFF']+=1; show('set', d, ps, out, exp)
        elif op=='rm':
            out = remove_value(parse(d), ps)
            # expected: lines of the binding (from line start of its first line to end of its last line incl. eol comment) removed; attached own-line comments above?  measure instead
            lines_in = d.split('\n'); lines_out = out.split('\n')
            # longest common prefix/suffix of lines
            p=0
            while p<min(len(lines_in),len(lines_out)) and lines_in[p]==lines_out[p]: p+=1
            q=0
            while q<min(len(lines_in),len(lines_out))-p and lines_in[-1-q]==lines_out[-1-q]: q+=1
            removed = lines_in[p:len(lines_in)-q]; added = lines_out[p:len(lines_out)-q]
            first_line = d[:bn.start_byte].count('\n'); last_line = d[:bn.end_byte].count('\n')
            # removed region must include binding lines and lie within [first_line - k (comments/blank above), last_line]
            ok = (not added or added==['']) and all(first_line - 6 <= p + j <= last_line+1 for j in range(len(removed)))
            region = (p, len(lines_in)-q-1)
            kind = 'rm-ok' if ok and region[0]<=first_line and region[1]>=last_line else 'rm-ODD'
            # classify what else got removed
            extra_above = lines_in[p:first_line]; 
            st[kind]+=1
            if kind=='rm-ODD': show('rm', d, ps, out)
            else:
                st['rm-extra-above:'+('none' if not extra_above else 'comment' if any(l.strip().startswith('#') for l in extra_above) else 'blank')]+=1
                if len(removed) > (last_line-first_line+1) + len(extra_above): st['rm-extra-below']+=1; show('rm-below', d, ps, out)
        else:
            # fresh single-segment key into the set that holds bn's siblings: use parent path
            parent = path[:-1]
            # only when parent addressed by explicit nested sets (len(segs)==1 all the way)
            key = 'zz_new'
            target = '.'.join(parent+[key])
            out = set_value(parse(d), target, '7')
            # expected: new line inserted before the closing brace of that set, at its item indent
            setnode = bn.parent.parent
            if setnode.type not in ('attrset_expression','rec_attrset_expression'): st['new-skip']+=1; continue
            closing = [c for c in setnode.children if c.type=='}'][0]
            if b'\n' not in setnode.text: 
                exp = (b[:closing.start_byte] + b'zz_new = 7; ' + b[closing.start_byte:]).decode()
            else:
                line_start = d.rfind('\n', 0, closing.start_byte)+1
                ind = closing.start_byte-line_start
                exp = d[:line_start] + ' '*(ind+2) + 'zz_new = 7;\n' + d[line_start:]
            if out==exp: st['new-ok']+=1
            else: st['new-DIFF']+=1; show('new', d, target, out, exp)
    except Exception as e:
        st['EXC:'+type(e).__name__+':'+str(e)[:40]]+=1; show('exc', d, ps, op, str(e))
print(dict(st))

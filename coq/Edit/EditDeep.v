(* Paths that run through an explicit nested set (repair F-57, repo 99873d2): `_set_value_in_attrset` / `_remove_value_in_attrset` re-target the
   edit at an explicit set on the path that keeps an attrpath order of its own, so that the rules of the top level (update a leaf in place, extend
   the family, refuse to overwrite a root, KeyError for a bare prefix) apply inside it and its rendering order stays in sync.  The model does the
   same by FOCUSING: the inner set becomes the root of a state that shares the heap, the root-level step m_set / m_rm (E.EditModel, unchanged, with
   all its theorems) runs there, and the result is written back.  Outside the new branch the deep functions ARE the root-level ones. *)
From Coq Require Import List Ascii Bool Arith Lia. Import ListNotations.
From E Require Import EditModel EditProofs.

Definition inner_target (s : st) (segs : list str) : option nat :=
  match segs with
  | s0 :: _ :: _ =>
      match find_root s (rvals s) s0 with
      | Some _ => None
      | None =>
          match find_by_name s (rvals s) s0 with
          | Some i => if nested_of s i then None else match val_of s i with VSet _ (_ :: _) _ => Some i | _ => None end
          | None => None
          end
      end
  | _ => None
  end.
Definition focus (s : st) (v : list nat) (o : list oentry) (m : bool) : st :=
  {| hp := hp s; nxt := nxt s; rvals := v; rorder := o; rml := m |}.
Definition unfocus (s0 : st) (i : nat) (s' : st) : st :=
  set_val {| hp := hp s'; nxt := nxt s'; rvals := rvals s0; rorder := rorder s0; rml := rml s0 |} i (VSet (rvals s') (rorder s') (rml s')).

Fixpoint m_set_deep (fuel : nat) (s : st) (segs : list str) (v : value) : st * res unit :=
  match fuel with
  | O => m_set s segs v
  | S f =>
      match find_leaf s SRoot segs with
      | Some _ => m_set s segs v
      | None =>
          match inner_target s segs with
          | Some i =>
              match val_of s i with
              | VSet vs o m => let '(s', r) := m_set_deep f (focus s vs o m) (tl segs) v in (unfocus s i s', r)
              | VAt _ => m_set s segs v
              end
          | None => m_set s segs v
          end
      end
  end.
Fixpoint m_rm_deep (fuel : nat) (s : st) (segs : list str) : st * res unit :=
  match fuel with
  | O => m_rm s segs
  | S f =>
      match find_leaf s SRoot segs with
      | Some _ => m_rm s segs
      | None =>
          match inner_target s segs with
          | Some i =>
              match val_of s i with
              | VSet vs o m => let '(s', r) := m_rm_deep f (focus s vs o m) (tl segs) in (unfocus s i s', r)
              | VAt _ => m_rm s segs
              end
          | None => m_rm s segs
          end
      end
  end.
Definition set_deep (s : st) (segs : list str) (v : value) := m_set_deep (List.length segs) s segs v.
Definition rm_deep (s : st) (segs : list str) := m_rm_deep (List.length segs) s segs.

(* outside the re-targeting branch the deep functions are the root-level ones: single segments, attrpath leaves and roots, fresh heads,
   heads that are not explicit non-empty sets — every theorem about m_set / m_rm is a theorem about the code there *)
Theorem set_deep_shallow f s segs v : inner_target s segs = None -> m_set_deep f s segs v = m_set s segs v.
Proof. intros H. destruct f as [|f]; [reflexivity|]. cbn [m_set_deep]. rewrite H. destruct (find_leaf s SRoot segs); reflexivity. Qed.
Theorem rm_deep_shallow f s segs : inner_target s segs = None -> m_rm_deep f s segs = m_rm s segs.
Proof. intros H. destruct f as [|f]; [reflexivity|]. cbn [m_rm_deep]. rewrite H. destruct (find_leaf s SRoot segs); reflexivity. Qed.
Theorem set_deep_leaf f s segs v l : find_leaf s SRoot segs = Some l -> m_set_deep f s segs v = m_set s segs v.
Proof. intros H. destruct f as [|f]; [reflexivity|]. cbn [m_set_deep]. rewrite H. reflexivity. Qed.
Theorem rm_deep_leaf f s segs l : find_leaf s SRoot segs = Some l -> m_rm_deep f s segs = m_rm s segs.
Proof. intros H. destruct f as [|f]; [reflexivity|]. cbn [m_rm_deep]. rewrite H. reflexivity. Qed.
Theorem single_segment_shallow s k : inner_target s [k] = None.
Proof. reflexivity. Qed.

(* writing back what was focused on changes nothing *)
Lemma hset_same h i b : hget h i = Some b -> hset h i b = h.
Proof.
  induction h as [|[k b0] t IH]; cbn [hget hset]; [discriminate|].
  destruct (k =? i) eqn:E; [intros H; injection H as ->; reflexivity|]. intros H. rewrite IH by exact H. reflexivity.
Qed.
Lemma unfocus_focus s i vs o m : val_of s i = VSet vs o m -> unfocus s i (focus s vs o m) = s.
Proof.
  unfold val_of, unfocus, focus, set_val. cbn [hp nxt rvals rorder rml].
  destruct (hget (hp s) i) as [b|] eqn:E; [|discriminate]. intros Hv.
  unfold with_hp. cbn [hp nxt rvals rorder rml].
  replace {| bname := bname b; bval := VSet vs o m; bnested := bnested b |} with b by (destruct b; cbn in *; subst; reflexivity).
  rewrite hset_same by exact E. destruct s; reflexivity.
Qed.

(* C08 through explicit nested sets: a refused removal leaves the whole state — heap, root, every inner set — as it was *)
Theorem rm_deep_atomic : forall f s segs, failed (snd (m_rm_deep f s segs)) -> fst (m_rm_deep f s segs) = s.
Proof.
  induction f as [|f IH]; intros s segs; [apply rm_atomic|]. cbn [m_rm_deep].
  destruct (find_leaf s SRoot segs); [apply rm_atomic|].
  destruct (inner_target s segs) as [i|]; [|apply rm_atomic].
  destruct (val_of s i) as [t|vs o m] eqn:Ev; [apply rm_atomic|].
  specialize (IH (focus s vs o m) (tl segs)).
  destruct (m_rm_deep f (focus s vs o m) (tl segs)) as [s' r]. cbn [fst snd] in *.
  intros Hf. rewrite (IH Hf). apply unfocus_focus, Ev.
Qed.
Print Assumptions rm_deep_atomic.

(* the re-targeted step is the root-level step of the inner set: what the theorems of EditProofs / EditFrame / EditUndo / EditRemove say about
   m_set and m_rm at a root holds for the inner set seen as a root *)
Theorem set_deep_retarget f s segs v i vs o m :
  find_leaf s SRoot segs = None -> inner_target s segs = Some i -> val_of s i = VSet vs o m ->
  m_set_deep (S f) s segs v = (unfocus s i (fst (m_set_deep f (focus s vs o m) (tl segs) v)), snd (m_set_deep f (focus s vs o m) (tl segs) v)).
Proof. intros Hl Hi Hv. cbn [m_set_deep]. rewrite Hl, Hi, Hv. destruct (m_set_deep f (focus s vs o m) (tl segs) v); reflexivity. Qed.
Theorem rm_deep_retarget f s segs i vs o m :
  find_leaf s SRoot segs = None -> inner_target s segs = Some i -> val_of s i = VSet vs o m ->
  m_rm_deep (S f) s segs = (unfocus s i (fst (m_rm_deep f (focus s vs o m) (tl segs))), snd (m_rm_deep f (focus s vs o m) (tl segs))).
Proof. intros Hl Hi Hv. cbn [m_rm_deep]. rewrite Hl, Hi, Hv. destruct (m_rm_deep f (focus s vs o m) (tl segs)); reflexivity. Qed.

"""Maintenance tool: re-create mutants listed by tools/mutation_probe.py (JSON lines with file/mutation) and look for an input of
the fixed corpora (tools/oracles/corpus_dump.py) on which the mutant and the unchanged tree behave differently.
usage: mutant_diff.py LOGFILE [STATUS]   (STATUS default SURVIVED) — prints, per mutant, how many corpus entries differ and up to two of them"""
import ast, json, os, re, subprocess, sys
sys.path.insert(0, os.path.dirname(os.path.abspath(__file__)))
import mutation_probe as MP
log = sys.argv[1]; want = sys.argv[2] if len(sys.argv) > 2 else 'SURVIVED'
BASE = {m: json.load(open('/tmp/scratch/base_%s.json' % m)) for m in ('render', 'edit', 'resolve')}
MODES = lambda rel: ['edit', 'resolve', 'render'] if rel.startswith('cli/') or rel.endswith(('set.py', 'scope.py')) else (['resolve', 'edit'] if rel.endswith(('identifier.py', 'resolution.py')) else ['render', 'edit'])
def sh(c, **kw): return subprocess.run(c, shell=True, stdout=subprocess.PIPE, stderr=subprocess.DEVNULL, text=True, **kw).stdout
for line in open(log):
    if not line.startswith('{'): continue
    r = json.loads(line)
    if not r['status'].startswith(want): continue
    rel = r['file']; m = re.match(r'line (\d+): (.*)', r['mutation']); lineno, kind = int(m.group(1)), m.group(2)
    kind = {'drop not': 'dropnot', 'swap break/continue': 'swapbc'}.get(kind, kind)
    src = open(os.path.join('/repo/nix_manipulator', rel)).read(); tree = ast.parse(src); s = MP.Sites(); s.visit(tree)
    # find the site with that kind on that line
    by_id = {}
    for n in ast.walk(tree): by_id[getattr(n, '_mid', None)] = n
    cands = [mid for k, mid in s.sites if k == kind and getattr(by_id.get(mid), 'lineno', None) == lineno]
    if not cands: print('??', rel, r['mutation']); continue
    w = '/tmp/scratch/mut/diff'; sh('rm -rf %s; git -C /repo worktree add -q --detach %s HEAD' % (w, w))
    ap = MP.Apply(kind, cands[0]); new = ap.visit(ast.parse(src)); ast.fix_missing_locations(new)
    open(os.path.join(w, 'nix_manipulator', rel), 'w').write(ast.unparse(new) + '\n')
    orig_line = src.split('\n')[lineno - 1].strip()
    print('=== %s %s   | %s' % (rel, r['mutation'], orig_line[:110]))
    for mode in MODES(rel):
        o = sh('cd /verif/tools/oracles && PYTHONPATH=%s PYTHONHASHSEED=0 timeout 900 /venv/bin/python -W ignore corpus_dump.py %s' % (w, mode))
        try: got = json.loads(o)
        except Exception: print('   %s: corpus run failed' % mode); continue
        diff = [k for k in BASE[mode] if got.get(k) != BASE[mode][k]]
        print('   %s: %d of %d corpus entries differ' % (mode, len(diff), len(BASE[mode])))
        for k in diff[:2]: print('      %s\n        base: %s\n        mut : %s' % (k, json.dumps(BASE[mode][k])[:300], json.dumps(got.get(k))[:300]))
        if diff: break
    sh('git -C /repo worktree remove --force %s' % w)

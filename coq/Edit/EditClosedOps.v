(* ids_closed is an invariant of set and rm, so the insertion theorem holds in every state reachable from a parsed
   document by any script of edits. *)
From Coq Require Import List Ascii String Bool Arith Lia.
Import ListNotations.
From E Require Import EditModel EditProofs EditFrame EditLaws EditAppend EditClosed.

Lemma closed_put_set s r v o m : ids_closed s -> closed_val (nxt s) (VSet v o m) -> ids_closed (put_set s r v o m).
Proof.
  intros Hc Hv. destruct r as [|ow]; cbn [put_set]; [|apply closed_set_val; assumption].
  destruct Hc as [_ Hh]. split; [exact Hv|exact Hh].
Qed.
Lemma nxt_put_set s r v o m : nxt (put_set s r v o m) = nxt s.
Proof. destruct r; cbn [put_set]; [reflexivity|apply nxt_set_val]. Qed.
Lemma get_set_closed s r v o m : ids_closed s -> get_set s r = Some (v, o, m) -> closed_val (nxt s) (VSet v o m).
Proof.
  intros Hc E. destruct r as [|ow]; cbn [get_set] in E.
  - inversion E; subst. apply Hc.
  - pose proof (closed_val_of s ow Hc) as H. destruct (val_of s ow) as [t|v' o' m']; [discriminate|]. inversion E; subst. exact H.
Qed.

Lemma closed_append_new s r k v : ids_closed s -> closed_val (nxt s) v ->
  ids_closed (fst (append_new s r k v)) /\ nxt s <= nxt (fst (append_new s r k v)).
Proof.
  intros Hc Hv. unfold append_new.
  set (b := {| bname := k; bval := v; bnested := false |}).
  change (alloc s b) with (fst (alloc s b), snd (alloc s b)). cbv beta iota.
  assert (Ha : ids_closed (fst (alloc s b))) by (apply closed_alloc; assumption).
  assert (En : nxt (fst (alloc s b)) = S (nxt s)) by reflexivity.
  destruct (get_set (fst (alloc s b)) r) as [[[vals ord] m]|] eqn:Eg; cbn [fst].
  - destruct (get_set_closed _ _ _ _ _ Ha Eg) as [H1 H2]. split; [|rewrite nxt_put_set; lia].
    apply closed_put_set; [exact Ha|]. split.
    + intros i Hi. apply in_app_or in Hi. destruct Hi as [Hi|[<-|[]]]; [apply H1, Hi|unfold alloc; cbn [fst snd nxt]; lia].
    + intros e He. destruct ord as [|o0 os]; [destruct He|]. apply in_app_or in He.
      destruct He as [He|[<-|[]]]; [apply H2, He|unfold alloc; cbn [fst snd nxt oid]; lia].
  - split; [exact Ha|lia].
Qed.

Lemma closed_set_setitem s r k v : ids_closed s -> closed_val (nxt s) v -> ids_closed (set_setitem s r k v).
Proof.
  intros Hc Hv. unfold set_setitem. destruct (find_by_name s (vals_of s r) k); [apply closed_set_val; assumption|apply closed_append_new; assumption].
Qed.
Lemma nxt_set_setitem_le s r k v : nxt s <= nxt (set_setitem s r k v).
Proof.
  unfold set_setitem. destruct (find_by_name s (vals_of s r) k); [rewrite nxt_set_val; lia|].
  unfold append_new. set (b := {| bname := k; bval := v; bnested := false |}).
  change (alloc s b) with (fst (alloc s b), snd (alloc s b)). cbv beta iota.
  assert (En : nxt (fst (alloc s b)) = S (nxt s)) by reflexivity.
  destruct (get_set (fst (alloc s b)) r) as [[[vals ord] m]|]; cbn [fst]; [rewrite nxt_put_set|]; lia.
Qed.

Lemma closed_sav_loop : forall mid s cur, ids_closed s -> ids_closed (fst (sav_loop s cur mid)) /\ nxt s <= nxt (fst (sav_loop s cur mid)).
Proof.
  induction mid as [|seg rest IH]; intros s cur Hc; [cbn [sav_loop fst]; split; [exact Hc|lia]|]. cbn [sav_loop].
  destruct (val_of s cur) as [t|cv cord cm] eqn:Ev; [cbn [fst]; split; [exact Hc|lia]|].
  destruct (find_named s cv seg (Some true)) as [b|].
  - destruct (is_vset (val_of s b)); [apply IH, Hc|cbn [fst]; split; [exact Hc|lia]].
  - destruct (find_named s cv seg (Some false)); [cbn [fst]; split; [exact Hc|lia]|].
    set (nb := {| bname := seg; bval := VSet [] [] cm; bnested := true |}).
    change (alloc s nb) with (fst (alloc s nb), snd (alloc s nb)). cbv beta iota.
    assert (Ha : ids_closed (fst (alloc s nb))) by (apply closed_alloc; [exact Hc|split; intros x []]).
    assert (En : nxt (fst (alloc s nb)) = S (nxt s)) by reflexivity.
    destruct (vals_closed s cur cv cord cm Hc Ev) as [H1 H2].
    assert (Hs : ids_closed (set_val (fst (alloc s nb)) cur (VSet (cv ++ [snd (alloc s nb)]) cord cm))).
    { apply closed_set_val; [exact Ha|]. split.
      - intros i Hi. apply in_app_or in Hi. destruct Hi as [Hi|[<-|[]]]; [specialize (H1 i Hi); lia|unfold alloc; cbn [fst snd nxt]; lia].
      - intros e He. specialize (H2 e He). lia. }
    destruct (IH _ (snd (alloc s nb)) Hs) as [Hr Hle]. split; [exact Hr|]. rewrite nxt_set_val in Hle. lia.
Qed.

Lemma closed_set_attrpath s r root segs t : ids_closed s -> ids_closed (fst (set_attrpath_value s r root segs (VAt t))).
Proof.
  intros Hc. unfold set_attrpath_value. destruct (negb (is_vset (val_of s root))); [exact Hc|].
  destruct (closed_sav_loop (removelast (tl segs)) s root Hc) as [H1 _].
  destruct (sav_loop s root (removelast (tl segs))) as [s1 [cur|e]]; cbn [fst] in *; [|exact H1].
  destruct (val_of s1 cur) as [tx|cv cord cm] eqn:Ev; [exact H1|].
  destruct (find_named s1 cv (last segs []) (Some true)); [exact H1|].
  destruct (find_named s1 cv (last segs []) (Some false)); [apply closed_set_val; [exact H1|exact I]|].
  set (nb := {| bname := last segs []; bval := VAt t; bnested := false |}).
  change (alloc s1 nb) with (fst (alloc s1 nb), snd (alloc s1 nb)). cbv beta iota.
  assert (Ha : ids_closed (fst (alloc s1 nb))) by (apply closed_alloc; [exact H1|exact I]).
  assert (En : nxt (fst (alloc s1 nb)) = S (nxt s1)) by reflexivity.
  destruct (vals_closed s1 cur cv cord cm H1 Ev) as [Hv1 Hv2].
  assert (Hs : ids_closed (set_val (fst (alloc s1 nb)) cur (VSet (cv ++ [snd (alloc s1 nb)]) cord cm))).
  { apply closed_set_val; [exact Ha|]. split.
    - intros i Hi. apply in_app_or in Hi. destruct Hi as [Hi|[<-|[]]]; [specialize (Hv1 i Hi); lia|unfold alloc; cbn [fst snd nxt]; lia].
    - intros e He. specialize (Hv2 e He). lia. }
  match goal with |- context [get_set ?S r] => destruct (get_set S r) as [[[rv rord] rm]|] eqn:Eg end; cbn [fst]; [|exact Hs].
  destruct (get_set_closed _ _ _ _ _ Hs Eg) as [G1 G2]. apply closed_put_set; [exact Hs|]. split; [exact G1|].
  intros e He. destruct rord as [|o0 os]; [destruct He|]. apply in_app_or in He.
  destruct He as [He|[<-|[]]]; [apply G2, He|]. cbn [oid]. rewrite nxt_set_val. unfold alloc; cbn [fst snd nxt]; lia.
Qed.

Lemma closed_resolve_parent : forall prefix s cur c, ids_closed s -> ids_closed (fst (resolve_parent s cur prefix c)).
Proof.
  induction prefix as [|seg rest IH]; intros s cur c Hc; [exact Hc|]. cbn [resolve_parent].
  destruct (find_by_name s (vals_of s cur) seg) as [i|].
  - destruct (is_vset (val_of s i)); [apply IH, Hc|exact Hc].
  - destruct c; [|exact Hc].
    set (m := match get_set s cur with Some (_, _, m) => m | None => true end).
    destruct (closed_append_new s cur seg (VSet [] [] m) Hc) as [H1 _]; [split; intros x []|].
    destruct (append_new s cur seg (VSet [] [] m)) as [s1 nb1]. apply IH, H1.
Qed.

Theorem closed_m_set s segs t : ids_closed s -> ids_closed (fst (m_set s segs (VAt t))).
Proof.
  intros Hc. unfold m_set. destruct (find_leaf s SRoot segs); [apply closed_set_val; [exact Hc|exact I]|].
  destruct segs as [|k [|k2 tl]]; [exact Hc| |].
  - destruct (find_root s (rvals s) k); [exact Hc|apply closed_set_setitem; [exact Hc|exact I]].
  - destruct (find_root s (rvals s) k); [apply closed_set_attrpath, Hc|].
    pose proof (closed_resolve_parent (removelast (k :: k2 :: tl)) s SRoot true Hc) as H1.
    destruct (resolve_parent s SRoot (removelast (k :: k2 :: tl)) true) as [s1 [parent|e]]; cbn [fst] in *;
      [apply closed_set_setitem; [exact H1|exact I]|exact H1].
Qed.

(* removals only shrink the lists *)
Lemma remove_first_sub l x i : In i (remove_first l x) -> In i l.
Proof. induction l as [|y t IH]; [auto|]. cbn [remove_first]. destruct (y =? x); [intros H; now right|intros [H|H]; [now left|right; apply IH, H]]. Qed.
Lemma remove_plain_sub l x e : In e (remove_plain l x) -> In e l.
Proof.
  induction l as [|y t IH]; [auto|]. cbn [remove_plain]. destruct y as [b|sg lf].
  - destruct (b =? x); [intros H; now right|intros [H|H]; [now left|right; apply IH, H]].
  - intros [H|H]; [now left|right; apply IH, H].
Qed.
Lemma remove_path_sub l x e : In e (remove_path l x) -> In e l.
Proof.
  induction l as [|y t IH]; [auto|]. cbn [remove_path]. destruct y as [b|sg lf].
  - intros [H|H]; [now left|right; apply IH, H].
  - destruct (lf =? x); [intros H; now right|intros [H|H]; [now left|right; apply IH, H]].
Qed.

Lemma closed_prune : forall stk s, ids_closed s -> ids_closed (prune s stk).
Proof.
  induction stk as [|[parent b] rest IH]; intros s Hc; [exact Hc|]. cbn [prune].
  destruct (val_of s b) as [t|[|x xs] o m]; try exact Hc.
  destruct (get_set s parent) as [[[pv pord] pm]|] eqn:Eg; [|exact Hc].
  destruct (get_set_closed _ _ _ _ _ Hc Eg) as [G1 G2]. apply IH, closed_put_set; [exact Hc|].
  split; [intros i Hi; apply G1, (remove_first_sub _ _ _ Hi)|exact G2].
Qed.
Lemma closed_set_delitem s r k : ids_closed s -> ids_closed (fst (set_delitem s r k)).
Proof.
  intros Hc. unfold set_delitem. destruct (get_set s r) as [[[vals ord] m]|] eqn:Eg; [|exact Hc].
  destruct (find_by_name s vals k); [|exact Hc]. destruct (get_set_closed _ _ _ _ _ Hc Eg) as [G1 G2].
  apply closed_put_set; [exact Hc|]. split; [intros i Hi; apply G1, (remove_first_sub _ _ _ Hi)|intros e He; apply G2, (remove_plain_sub _ _ _ He)].
Qed.
Lemma closed_remove_attrpath s r segs : ids_closed s -> ids_closed (fst (remove_attrpath_value s r segs)).
Proof.
  intros Hc. unfold remove_attrpath_value. destruct (walk_stack s r segs false true) as [[stack|]|e]; try exact Hc.
  destruct (last stack (SRoot, 0)) as [parent leaf]. destruct (get_set s parent) as [[[pv pord] pm]|] eqn:Eg; [|exact Hc].
  cbn [fst]. apply closed_prune. destruct (get_set_closed _ _ _ _ _ Hc Eg) as [G1 G2].
  assert (H1 : ids_closed (put_set s parent (remove_first pv leaf) pord pm)).
  { apply closed_put_set; [exact Hc|]. split; [intros i Hi; apply G1, (remove_first_sub _ _ _ Hi)|exact G2]. }
  match goal with |- context [get_set ?S r] => destruct (get_set S r) as [[[rv rord] rm]|] eqn:Eg2 end; [|exact H1].
  destruct (get_set_closed _ _ _ _ _ H1 Eg2) as [K1 K2]. apply closed_put_set; [exact H1|].
  split; [exact K1|intros e He; apply K2, (remove_path_sub _ _ _ He)].
Qed.
Theorem closed_m_rm s segs : ids_closed s -> ids_closed (fst (m_rm s segs)).
Proof.
  intros Hc. unfold m_rm. destruct (find_leaf s SRoot segs); [apply closed_remove_attrpath, Hc|].
  destruct segs as [|k [|k2 tl]]; [exact Hc| |].
  - destruct (find_root s (rvals s) k); [exact Hc|apply closed_set_delitem, Hc].
  - destruct (find_root s (rvals s) k); [apply closed_remove_attrpath, Hc|].
    pose proof (closed_resolve_parent (removelast (k :: k2 :: tl)) s SRoot false Hc) as H1.
    destruct (resolve_parent s SRoot (removelast (k :: k2 :: tl)) false) as [s1 [parent|e]]; cbn [fst] in *;
      [apply closed_set_delitem, H1|exact H1].
Qed.

(* scripts whose set operations write atoms (what the correspondence harness generates) *)
Definition atomic_op (o : eop) : Prop := match o with ESet _ (VAt _) => True | ESet _ _ => False | ERm _ => True end.
Lemma closed_erun : forall ops s, Forall atomic_op ops -> ids_closed s -> ids_closed (erun s ops).
Proof.
  induction ops as [|o ops IH]; intros s Ha Hc; [exact Hc|]. inversion Ha as [|? ? Ho Hops]; subst.
  cbn [erun fold_left]. apply (IH _ Hops). destruct o as [segs [t|v o0 m]|segs]; cbn [atomic_op] in Ho; try contradiction.
  - apply closed_m_set, Hc.
  - apply closed_m_rm, Hc.
Qed.

(* the insertion theorem in every state reachable from a parsed document *)
Theorem C04_fresh_root_reachable d s0 ops k t : parse_doc d = Ok s0 -> Forall atomic_op ops ->
  let s := erun s0 ops in
  (rvals s = [] -> rorder s = []) -> find_by_name s (rvals s) k = None ->
  view (set_setitem s SRoot k (VAt t)) = TS (items_of (view s) ++ [(k, TA t)]).
Proof.
  intros Hp Ha s. apply C04_fresh_root. apply closed_erun; [exact Ha|eapply ids_closed_parse_doc; exact Hp].
Qed.
Print Assumptions C04_fresh_root_reachable.

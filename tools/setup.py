"""setup_cmd: full .vo build of the static development from clean sources (offline)"""
import os, sys
sys.path.insert(0, os.path.dirname(os.path.abspath(__file__)))
import vlib
ok, out = vlib.ensure_static()
print(out[-3000:] if not ok else 'static Coq development built: %d files' % len(vlib.static_sources()))
sys.exit(0 if ok else 1)

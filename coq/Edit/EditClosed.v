(* Discharging the hypothesis of C04_fresh_root for parsed documents: parse_doc establishes ids_closed. *)
From Coq Require Import List Ascii String Bool Arith Lia.
Import ListNotations.
From E Require Import EditModel EditProofs EditFrame EditLaws EditAppend.

Lemma closed_mono n m v : n <= m -> closed_val n v -> closed_val m v.
Proof.
  intros Hle. destruct v as [t|vals ord ml]; [auto|]. intros [H1 H2]. split; intros x Hx; [specialize (H1 x Hx)|specialize (H2 x Hx)]; lia.
Qed.
Lemma hset_in h i b k0 b0 : In (k0, b0) (hset h i b) -> b0 = b \/ In (k0, b0) h.
Proof.
  induction h as [|[k1 b1] t IH]; intros H; [destruct H|]. cbn [hset] in H. destruct (k1 =? i).
  - destruct H as [H|H]; [inversion H; subst; now left|right; now right].
  - destruct H as [H|H]; [right; left; exact H|]. destruct (IH H) as [->|H']; [now left|right; now right].
Qed.

Lemma closed_alloc s b : ids_closed s -> closed_val (nxt s) (bval b) -> ids_closed (fst (alloc s b)).
Proof.
  intros [Hr Hh] Hb. unfold alloc. split; cbn [fst nxt rvals rorder rml hp].
  - apply (closed_mono (nxt s)); [lia|exact Hr].
  - intros k b0 [Hin|Hin]; [inversion Hin; subst; apply (closed_mono (nxt s)); [lia|exact Hb]|].
    apply (closed_mono (nxt s)); [lia|exact (Hh k b0 Hin)].
Qed.
Lemma closed_set_val s i v : ids_closed s -> closed_val (nxt s) v -> ids_closed (set_val s i v).
Proof.
  intros [Hr Hh] Hv. unfold set_val. destruct (hget (hp s) i) as [b|]; [|split; assumption].
  split; cbn [with_hp nxt rvals rorder rml hp]; [exact Hr|]. intros k b0 Hin.
  destruct (hset_in _ _ _ _ _ Hin) as [->|Hin']; [exact Hv|exact (Hh k b0 Hin')].
Qed.
Lemma nxt_set_val s i v : nxt (set_val s i v) = nxt s.
Proof. unfold set_val. destruct (hget (hp s) i); reflexivity. Qed.

Lemma closed_alloc_chain : forall pre s cur, ids_closed s -> cur < nxt s ->
  ids_closed (fst (alloc_chain s pre cur)) /\ snd (alloc_chain s pre cur) < nxt (fst (alloc_chain s pre cur)) /\ nxt s <= nxt (fst (alloc_chain s pre cur)).
Proof.
  induction pre as [|seg t IH]; intros s cur Hc Hlt; [split; [exact Hc|split; [exact Hlt|cbn; lia]]|]. cbn [alloc_chain].
  set (b := {| bname := seg; bval := VSet [cur] [] true; bnested := true |}).
  change (alloc s b) with (fst (alloc s b), snd (alloc s b)). cbv beta iota.
  assert (Hb : closed_val (nxt s) (bval b)) by (cbn; split; [intros i [<-|[]]; exact Hlt|intros e []]).
  destruct (IH (fst (alloc s b)) (snd (alloc s b)) (closed_alloc s b Hc Hb)) as (H1 & H2 & H3); [unfold alloc; cbn [fst snd nxt]; lia|].
  split; [exact H1|split; [exact H2|]]. assert (En : nxt (fst (alloc s b)) = S (nxt s)) by reflexivity. lia.
Qed.

Lemma vals_closed s i tv tord tm : ids_closed s -> val_of s i = VSet tv tord tm -> (forall x, In x tv -> x < nxt s) /\ (forall e, In e tord -> oid e < nxt s).
Proof. intros Hc E. pose proof (closed_val_of s i Hc) as H. rewrite E in H. exact H. Qed.

Lemma closed_merge_sets : forall fuel s target incoming s', ids_closed s -> (forall i, In i incoming -> i < nxt s) ->
  merge_sets fuel s target incoming = Ok s' -> ids_closed s' /\ nxt s' = nxt s.
Proof.
  induction fuel as [|f IH]; intros s target incoming s' Hc Hin E; [discriminate|].
  cbn [merge_sets] in E. destruct incoming as [|iid rest]; [inversion E; subst; split; [exact Hc|reflexivity]|].
  assert (Hiid : iid < nxt s) by (apply Hin; now left).
  assert (Hrest : forall i, In i rest -> i < nxt s) by (intros i Hi; apply Hin; now right).
  destruct (val_of s target) as [t|tv tord tm] eqn:Et; [discriminate|].
  destruct (vals_closed s target tv tord tm Hc Et) as [Htv Htord].
  assert (Happ : ids_closed (set_val s target (VSet (tv ++ [iid]) tord tm))).
  { apply closed_set_val; [exact Hc|]. split; [|exact Htord]. intros x Hx. apply in_app_or in Hx. destruct Hx as [Hx|[<-|[]]]; [apply Htv, Hx|exact Hiid]. }
  assert (Hsub : forall s1, ids_closed s1 -> nxt s1 = nxt s -> merge_sets f s1 target rest = Ok s' -> ids_closed s' /\ nxt s' = nxt s).
  { intros s1 H1 Hn E1. destruct (IH s1 target rest s' H1) as [Ha Hb]; [intros i Hi; rewrite Hn; apply Hrest, Hi|exact E1|]. split; [exact Ha|congruence]. }
  assert (Hinner : forall ex s1, merge_sets f s ex (match val_of s iid with VSet v _ _ => v | _ => [] end) = Ok s1 -> ids_closed s1 /\ nxt s1 = nxt s).
  { intros ex s1 E1. apply (IH s ex (match val_of s iid with VSet v _ _ => v | _ => [] end) s1 Hc); [|exact E1]. intros i Hi. destruct (val_of s iid) as [ti|iv iord im] eqn:Ei; [destruct Hi|].
    destruct (vals_closed s iid iv iord im Hc Ei) as [Hiv _]. apply Hiv, Hi. }
  destruct (find_by_name s tv (name_of s iid)) as [ex|].
  - destruct (nested_of s ex || nested_of s iid).
    + destruct (nested_of s ex && nested_of s iid).
      * destruct (is_vset (val_of s ex) && is_vset (val_of s iid)); [|discriminate].
        destruct (merge_sets f s ex _) as [s1|e] eqn:E1; [|discriminate]. destruct (Hinner ex s1 E1) as [Ha Hb]. apply (Hsub s1 Ha Hb E).
      * destruct (is_vset (val_of s ex) && is_vset (val_of s iid)); [|discriminate].
        apply (Hsub _ Happ (nxt_set_val _ _ _) E).
    + destruct (is_vset (val_of s ex) && is_vset (val_of s iid)); [|discriminate].
      destruct (merge_sets f s ex _) as [s1|e] eqn:E1; [|discriminate]. destruct (Hinner ex s1 E1) as [Ha Hb]. apply (Hsub s1 Ha Hb E).
  - apply (Hsub _ Happ (nxt_set_val _ _ _) E).
Qed.

Lemma closed_merge_bindings : forall fuel s raw merged firsts s' out, ids_closed s ->
  (forall i, In i raw -> i < nxt s) -> (forall i, In i merged -> i < nxt s) ->
  merge_bindings fuel s raw merged firsts = Ok (s', out) ->
  ids_closed s' /\ nxt s' = nxt s /\ (forall i, In i out -> i < nxt s).
Proof.
  induction fuel as [|f IH]; intros s raw merged firsts s' out Hc Hraw Hm E; [discriminate|].
  cbn [merge_bindings] in E. destruct raw as [|rid rest]; [inversion E; subst; split; [exact Hc|split; [reflexivity|exact Hm]]|].
  assert (Hrid : rid < nxt s) by (apply Hraw; now left).
  assert (Hrest : forall i, In i rest -> i < nxt s) by (intros i Hi; apply Hraw; now right).
  assert (Hm' : forall i, In i (merged ++ [rid]) -> i < nxt s).
  { intros i Hi. apply in_app_or in Hi. destruct Hi as [Hi|[<-|[]]]; [apply Hm, Hi|exact Hrid]. }
  destruct (find_by_name s firsts (name_of s rid)) as [ex|]; [|apply (IH s rest _ _ s' out Hc Hrest Hm' E)].
  destruct (nested_of s ex || nested_of s rid); [|apply (IH s rest _ _ s' out Hc Hrest Hm' E)].
  destruct (nested_of s ex && nested_of s rid).
  - destruct (is_vset (val_of s ex) && is_vset (val_of s rid)); [|discriminate].
    destruct (merge_sets (S f) s ex (match val_of s rid with VSet v _ _ => v | _ => [] end)) as [s1|e] eqn:E1; [|discriminate].
    destruct (closed_merge_sets (S f) s ex (match val_of s rid with VSet v _ _ => v | _ => [] end) s1 Hc) as [Ha Hb]; [|exact E1|].
    { intros i Hi. destruct (val_of s rid) as [ti|iv iord im] eqn:Ei; [destruct Hi|]. destruct (vals_closed s rid iv iord im Hc Ei) as [Hiv _]. apply Hiv, Hi. }
    destruct (IH s1 rest merged firsts s' out Ha) as (H1 & H2 & H3); [intros i Hi; rewrite Hb; apply Hrest, Hi|intros i Hi; rewrite Hb; apply Hm, Hi|exact E|].
    split; [exact H1|split; [congruence|intros i Hi; rewrite <- Hb; apply H3, Hi]].
  - destruct (is_vset (val_of s ex) && is_vset (val_of s rid)); [|discriminate]. apply (IH s rest _ _ s' out Hc Hrest Hm' E).
Qed.

Lemma extract_leaf_lt : forall fuel s v acc sg leaf, ids_closed s -> closed_val (nxt s) v ->
  extract_leaf fuel s v acc = Some (sg, leaf) -> leaf < nxt s.
Proof.
  induction fuel as [|f IH]; intros s v acc sg leaf Hc Hv E; [discriminate|]. cbn [extract_leaf] in E.
  destruct v as [t|[|c [|c2 cs]] ord ml]; try discriminate. destruct Hv as [Hvals _].
  destruct (nested_of s c).
  - destruct (is_vset (val_of s c)); [|discriminate]. apply (IH s (val_of s c) _ sg leaf Hc (closed_val_of s c Hc) E).
  - inversion E; subst. apply Hvals. now left.
Qed.

Lemma order_entry_lt s1 rid : ids_closed s1 -> rid < nxt s1 ->
  oid (if nested_of s1 rid then
         match extract_leaf (S (List.length (hp s1))) s1 (val_of s1 rid) [name_of s1 rid] with
         | Some (sg, leaf) => OPath sg leaf | None => OPlain rid end
       else OPlain rid) < nxt s1.
Proof.
  intros H1 Hr. destruct (nested_of s1 rid); [|exact Hr].
  destruct (extract_leaf (S (List.length (hp s1))) s1 (val_of s1 rid) [name_of s1 rid]) as [[sg leaf]|] eqn:Ex; [|exact Hr].
  cbn [oid]. apply (extract_leaf_lt _ s1 _ _ sg leaf H1 (closed_val_of s1 rid H1) Ex).
Qed.

Lemma closed_parse_value : forall fuel s d s' v, ids_closed s -> parse_value fuel s d = Ok (s', v) ->
  ids_closed s' /\ closed_val (nxt s') v /\ nxt s <= nxt s'.
Proof.
  induction fuel as [|f IH]; intros s d s' v Hc E; [discriminate|].
  cbn [parse_value] in E. destruct d as [t|ml items]; [inversion E; subst; split; [exact Hc|split; [exact I|lia]]|].
  match type of E with context [?F s items []] =>
    assert (Hstep : forall its s0 raw s1 raw1, ids_closed s0 -> (forall i, In i raw -> i < nxt s0) -> F s0 its raw = Ok (s1, raw1) ->
                    ids_closed s1 /\ (forall i, In i raw1 -> i < nxt s1) /\ nxt s0 <= nxt s1) end.
  { induction its as [|[segs dv] rest IHs]; intros s0 raw s1 raw1 H0 Hr E0; [inversion E0; subst; split; [exact H0|split; [exact Hr|lia]]|].
    destruct (parse_value f s0 dv) as [[s2 pv]|e] eqn:Ev; [|discriminate].
    destruct (IH _ _ _ _ H0 Ev) as (H2 & Hpv & Hle2).
    set (b := {| bname := last segs []; bval := pv; bnested := false |}) in E0.
    change (alloc s2 b) with (fst (alloc s2 b), snd (alloc s2 b)) in E0. cbv beta iota in E0.
    assert (H2a : ids_closed (fst (alloc s2 b))) by (apply closed_alloc; [exact H2|exact Hpv]).
    assert (Hn2 : nxt (fst (alloc s2 b)) = S (nxt s2)) by reflexivity.
    destruct (closed_alloc_chain (rev (removelast segs)) (fst (alloc s2 b)) (snd (alloc s2 b)) H2a) as (H3 & Hroot & Hle3);
      [unfold alloc; cbn [fst snd nxt]; lia|].
    destruct (alloc_chain (fst (alloc s2 b)) (rev (removelast segs)) (snd (alloc s2 b))) as [s3 root]. cbn [fst snd] in H3, Hroot, Hle3.
    destruct (IHs s3 (raw ++ [root]) s1 raw1 H3) as (Ha & Hb & Hc'); [|exact E0|].
    { intros i Hi. apply in_app_or in Hi. destruct Hi as [Hi|[<-|[]]]; [specialize (Hr i Hi); lia|exact Hroot]. }
    split; [exact Ha|split; [exact Hb|lia]]. }
  match type of E with context [?F s items []] => destruct (F s items []) as [[s1 raw]|e] eqn:Es; [|discriminate] end.
  destruct (Hstep _ _ _ _ _ Hc (fun i (H : In i []) => match H with end) Es) as (H1 & Hraw & Hle1).
  destruct (merge_bindings (S (List.length raw)) s1 raw [] []) as [[s2 values]|e] eqn:Em; [|discriminate].
  destruct (closed_merge_bindings _ _ _ _ _ _ _ H1 Hraw (fun i (H : In i []) => match H with end) Em) as (H2 & Hn & Hvals).
  inversion E; subst. split; [exact H2|]. split; [|lia].
  cbn [closed_val]. rewrite Hn. split; [exact Hvals|].
  intros e0 He. apply in_map_iff in He. destruct He as [rid [<- Hrid]]. specialize (Hraw rid Hrid).
  apply (order_entry_lt s1 rid H1 Hraw).
Qed.

Theorem ids_closed_parse_doc d s : parse_doc d = Ok s -> ids_closed s.
Proof.
  unfold parse_doc. destruct (parse_value 1000 _ d) as [[s1 v]|e] eqn:E; [|discriminate].
  assert (H0 : ids_closed {| hp := []; nxt := 0; rvals := []; rorder := []; rml := true |}).
  { split; [split; intros x []|intros k b []]. }
  destruct (closed_parse_value _ _ _ _ _ H0 E) as ([_ Hh] & Hv & _).
  destruct v as [t|vals ord m]; [discriminate|]. intros Hs. inversion Hs; subst. split; [exact Hv|exact Hh].
Qed.

(* C04 insertion at the root of any parsed document, with no closure hypothesis left *)
Theorem C04_fresh_root_parsed d s k t : parse_doc d = Ok s -> (rvals s = [] -> rorder s = []) ->
  find_by_name s (rvals s) k = None ->
  view (set_setitem s SRoot k (VAt t)) = TS (items_of (view s) ++ [(k, TA t)]).
Proof. intros Hp. apply C04_fresh_root. eapply ids_closed_parse_doc; exact Hp. Qed.
Print Assumptions C04_fresh_root_parsed.

(* C19, law 2 on the edit heap model: `set k v` of a key that does not exist at the root followed by `rm k` succeeds
   and the printed document is exactly the one before the two edits (the heap keeps an unreferenced binding). *)
From Coq Require Import List Ascii String Bool Arith Lia.
Import ListNotations.
From E Require Import EditModel EditProofs EditFrame EditLaws EditAppend EditClosed.

(* the printed view reads a state only through its heap *)
Lemma expand_heap s1 s2 : hp s1 = hp s2 -> forall g lv bid prefix, expand s1 lv g bid prefix = expand s2 lv g bid prefix.
Proof.
  intros Hh. assert (Ev : forall i, val_of s1 i = val_of s2 i) by (intros i; unfold val_of; now rewrite Hh).
  assert (En : forall i, nested_of s1 i = nested_of s2 i) by (intros i; unfold nested_of; now rewrite Hh).
  assert (Em : forall i, name_of s1 i = name_of s2 i) by (intros i; unfold name_of; now rewrite Hh).
  induction g as [|g IH]; intros lv bid prefix; [reflexivity|]. cbn [expand]. rewrite Ev.
  destruct (val_of s2 bid); [reflexivity|]. apply fold_left_ext. intros acc iid _. destruct acc; [|reflexivity].
  rewrite En, Ev, Em, IH. reflexivity.
Qed.
Lemma view_heap ar s1 s2 : hp s1 = hp s2 -> forall f o v, view_value_g ar f s1 o v = view_value_g ar f s2 o v.
Proof.
  intros Hh. assert (Ev : forall i, val_of s1 i = val_of s2 i) by (intros i; unfold val_of; now rewrite Hh).
  assert (En : forall i, nested_of s1 i = nested_of s2 i) by (intros i; unfold nested_of; now rewrite Hh).
  assert (Em : forall i, name_of s1 i = name_of s2 i) by (intros i; unfold name_of; now rewrite Hh).
  induction f as [|f IH]; intros o v; [reflexivity|]. cbn [view_value_g]. destruct v as [tx|vals order ml]; [reflexivity|].
  destruct vals; [reflexivity|]. f_equal. apply flat_map_ext. intros e. destruct e as [bid|sg leaf].
  - rewrite En, Em, Ev, (IH (Some bid)). destruct (nested_of s2 bid); [|reflexivity].
    rewrite (expand_heap s1 s2 Hh).
    assert (El : forall g bid0 prefix, expand s2 (fun i => view_value_g ar f s1 (Some i) (val_of s1 i)) g bid0 prefix =
                                       expand s2 (fun i => view_value_g ar f s2 (Some i) (val_of s2 i)) g bid0 prefix).
    { induction g as [|g IHg]; intros bid0 prefix; [reflexivity|]. cbn [expand]. destruct (val_of s2 bid0); [reflexivity|].
      apply fold_left_ext. intros acc iid _. destruct acc; [|reflexivity]. rewrite IHg, Ev, (IH (Some iid)). reflexivity. }
    rewrite El. reflexivity.
  - rewrite Ev, IH. reflexivity.
Qed.

Lemma remove_first_fresh l x : ~ In x l -> remove_first (l ++ [x]) x = l.
Proof.
  induction l as [|y l IH]; intros H; cbn [app remove_first]; [now rewrite Nat.eqb_refl|].
  destruct (y =? x) eqn:E; [apply Nat.eqb_eq in E; subst; exfalso; apply H; now left|]. rewrite IH; [reflexivity|]. intros Hin. apply H. now right.
Qed.
Lemma remove_first_absent l x : ~ In x l -> remove_first l x = l.
Proof.
  induction l as [|y l IH]; intros H; [reflexivity|]. cbn [remove_first].
  destruct (y =? x) eqn:E; [apply Nat.eqb_eq in E; subst; exfalso; apply H; now left|]. rewrite IH; [reflexivity|]. intros Hin. apply H. now right.
Qed.
Lemma remove_plain_fresh l x : (forall e, In e l -> oid e <> x) -> remove_plain (l ++ [OPlain x]) x = l.
Proof.
  induction l as [|e l IH]; intros H; cbn [app remove_plain]; [now rewrite Nat.eqb_refl|].
  assert (Hl : forall e0, In e0 l -> oid e0 <> x) by (intros e0 He0; apply H; now right).
  destruct e as [y|sg y]; [|now rewrite IH].
  destruct (y =? x) eqn:E; [apply Nat.eqb_eq in E; subst; exfalso; apply (H (OPlain x)); [now left|reflexivity]|]. now rewrite IH.
Qed.
Lemma find_by_name_alloc s b ids key : (forall i, In i ids -> i < nxt s) ->
  find_by_name (fst (alloc s b)) ids key = find_by_name s ids key.
Proof.
  induction ids as [|i ids IH]; intros H; [reflexivity|]. cbn [find_by_name].
  rewrite (name_of_alloc_other s b i) by (pose proof (H i (or_introl eq_refl)); lia).
  rewrite IH; [reflexivity|]. intros j Hj. apply H. now right.
Qed.
Lemma find_root_alloc s b ids key : (forall i, In i ids -> i < nxt s) ->
  find_root (fst (alloc s b)) ids key = find_root s ids key.
Proof.
  induction ids as [|i ids IH]; intros H; [reflexivity|]. cbn [find_root].
  assert (Hi : i <> nxt s) by (pose proof (H i (or_introl eq_refl)); lia).
  rewrite (name_of_alloc_other s b i Hi), (nested_of_alloc_other s b i Hi).
  rewrite IH; [reflexivity|]. intros j Hj. apply H. now right.
Qed.
Lemma find_by_name_app_none s ids key x : find_by_name s ids key = None -> find_by_name s (ids ++ [x]) key = if streq (name_of s x) key then Some x else None.
Proof.
  induction ids as [|i ids IH]; intros H; [reflexivity|]. cbn [app find_by_name] in *.
  destruct (streq (name_of s i) key); [discriminate|]. now apply IH.
Qed.
Lemma find_root_app_plain s ids key x : find_root s ids key = None -> nested_of s x = false -> find_root s (ids ++ [x]) key = None.
Proof.
  induction ids as [|i ids IH]; intros H Hx; cbn [app find_root] in *; [now rewrite Hx|].
  destruct (nested_of s i && streq (name_of s i) key); [discriminate|]. now apply IH.
Qed.
Lemma find_root_none_of_name s ids key : find_by_name s ids key = None -> find_root s ids key = None.
Proof.
  induction ids as [|i ids IH]; intros H; [reflexivity|]. cbn [find_by_name find_root] in *.
  destruct (streq (name_of s i) key); [discriminate|]. rewrite andb_false_r. now apply IH.
Qed.

Theorem set_then_rm_fresh_root s k t :
  ids_closed s -> find_by_name s (rvals s) k = None ->
  let s1 := fst (m_set s [k] (VAt t)) in
  snd (m_set s [k] (VAt t)) = Ok tt /\ snd (m_rm s1 [k]) = Ok tt /\ view (fst (m_rm s1 [k])) = view s.
Proof.
  intros Hc Hfresh. cbv zeta. destruct Hc as [[Hrv Hro] Hheapc].
  set (b := {| bname := k; bval := VAt t; bnested := false |}).
  pose proof (find_root_none_of_name s (rvals s) k Hfresh) as Hroot.
  (* the set *)
  assert (Eset : m_set s [k] (VAt t) = (fst (append_new s SRoot k (VAt t)), Ok tt)).
  { unfold m_set, find_leaf, walk_stack. cbv iota beta. rewrite Hroot. rewrite (setitem_root_fresh s k (VAt t) Hfresh). reflexivity. }
  rewrite Eset. cbn [fst snd]. split; [reflexivity|].
  set (s1 := fst (append_new s SRoot k (VAt t))).
  assert (Es1 : s1 = {| hp := (nxt s, b) :: hp s; nxt := S (nxt s); rvals := rvals s ++ [nxt s];
                        rorder := match rorder s with [] => [] | _ => rorder s ++ [OPlain (nxt s)] end; rml := rml s |}) by reflexivity.
  assert (Hhp : hp s1 = hp (fst (alloc s b))) by (rewrite Es1; reflexivity).
  assert (Nm : forall i, name_of s1 i = name_of (fst (alloc s b)) i) by (intros i; unfold name_of; now rewrite Hhp).
  assert (Ns : forall i, nested_of s1 i = nested_of (fst (alloc s b)) i) by (intros i; unfold nested_of; now rewrite Hhp).
  (* lookups in s1 *)
  assert (Hfb : forall ids key, find_by_name s1 ids key = find_by_name (fst (alloc s b)) ids key).
  { induction ids as [|i ids IH]; intros key; [reflexivity|]. cbn [find_by_name]. now rewrite Nm, IH. }
  assert (Hfr : forall ids key, find_root s1 ids key = find_root (fst (alloc s b)) ids key).
  { induction ids as [|i ids IH]; intros key; [reflexivity|]. cbn [find_root]. now rewrite Nm, Ns, IH. }
  assert (Hfind : find_by_name s1 (rvals s1) k = Some (nxt s)).
  { rewrite Es1 at 2. cbn [rvals]. rewrite Hfb. rewrite find_by_name_app_none by (rewrite (find_by_name_alloc s b _ k Hrv); exact Hfresh).
    rewrite (name_of_alloc_new s b). cbn [bname b]. now rewrite streq_refl. }
  assert (Hroot1 : find_root s1 (rvals s1) k = None).
  { rewrite Es1 at 2. cbn [rvals]. rewrite Hfr. apply find_root_app_plain.
    - rewrite (find_root_alloc s b _ k Hrv). exact Hroot.
    - unfold alloc, nested_of. cbn [fst hp hget]. now rewrite Nat.eqb_refl. }
  (* the rm *)
  assert (Erm : m_rm s1 [k] = (put_set s1 SRoot (remove_first (rvals s1) (nxt s)) (remove_plain (rorder s1) (nxt s)) (rml s1), Ok tt)).
  { unfold m_rm, find_leaf, walk_stack. cbv iota beta. rewrite Hroot1. unfold set_delitem. cbn [get_set]. rewrite Hfind. reflexivity. }
  rewrite Erm. cbn [fst snd]. split; [reflexivity|].
  assert (Hnotin : ~ In (nxt s) (rvals s)) by (intros Hin; pose proof (Hrv _ Hin); lia).
  assert (Ev : remove_first (rvals s1) (nxt s) = rvals s) by (rewrite Es1; cbn [rvals]; now apply remove_first_fresh).
  assert (Eo : remove_plain (rorder s1) (nxt s) = rorder s).
  { rewrite Es1. cbn [rorder]. destruct (rorder s) as [|o0 os] eqn:Eord; [reflexivity|]. rewrite <- Eord.
    apply remove_plain_fresh. intros e He. rewrite Eord in He. pose proof (Hro e He). lia. }
  rewrite Ev, Eo. unfold view, view_value, put_set. cbn [rvals rorder rml hp nxt].
  assert (Erml : rml s1 = rml s) by (rewrite Es1; reflexivity). rewrite Erml.
  rewrite (view_heap (fun _ x => x) _ (fst (alloc s b))) by (cbn [hp]; exact Hhp).
  apply view_alloc; [split; [split; assumption|assumption]|split; assumption].
Qed.
Print Assumptions set_then_rm_fresh_root.

(* ---- C19, law 4: two sets on different existing leaves commute (as equality of states) ---- *)
Lemma hset_comm h i j a b : i <> j -> hset (hset h i a) j b = hset (hset h j b) i a.
Proof.
  intros Hn. induction h as [|[k c] h IH]; [reflexivity|]. cbn [hset].
  destruct (k =? i) eqn:Ei; destruct (k =? j) eqn:Ej; cbn [hset]; rewrite ?Ei, ?Ej.
  - apply Nat.eqb_eq in Ei, Ej. congruence.
  - reflexivity.
  - reflexivity.
  - now rewrite IH.
Qed.
Lemma set_val_comm s i j v w : i <> j -> set_val (set_val s i v) j w = set_val (set_val s j w) i v.
Proof.
  intros Hn. assert (Hn' : j <> i) by congruence.
  destruct (hget (hp s) i) as [bi|] eqn:Ei; destruct (hget (hp s) j) as [bj|] eqn:Ej.
  - unfold set_val. rewrite Ei, Ej. cbn [hp with_hp]. rewrite (hget_hset_other _ i j _ Hn), Ej, (hget_hset_other _ j i _ Hn'), Ei.
    unfold with_hp. cbn [hp nxt rvals rorder rml]. rewrite (hset_comm _ i j _ _ Hn). reflexivity.
  - unfold set_val. rewrite Ei, Ej. cbn [hp with_hp]. rewrite (hget_hset_other _ i j _ Hn), Ej, Ei. reflexivity.
  - unfold set_val. rewrite Ei, Ej. cbn [hp with_hp]. rewrite (hget_hset_other _ j i _ Hn'), Ei. reflexivity.
  - unfold set_val. rewrite Ei, Ej. rewrite ?Ei, ?Ej. reflexivity.
Qed.
Theorem set_leaves_commute s p q lp lq tp tq v w :
  find_leaf s SRoot p = Some lp -> find_leaf s SRoot q = Some lq -> lp <> lq ->
  val_of s lp = VAt tp -> val_of s lq = VAt tq -> hget (hp s) lp <> None -> hget (hp s) lq <> None ->
  fst (m_set (fst (m_set s p (VAt v))) q (VAt w)) = fst (m_set (fst (m_set s q (VAt w))) p (VAt v)).
Proof.
  intros Hp Hq Hn Hvp Hvq Hxp Hxq.
  assert (E1 : m_set s p (VAt v) = (set_val s lp (VAt v), Ok tt)) by (unfold m_set; now rewrite Hp).
  assert (E2 : m_set s q (VAt w) = (set_val s lq (VAt w), Ok tt)) by (unfold m_set; now rewrite Hq).
  rewrite E1, E2. cbn [fst].
  assert (F1 : find_leaf (set_val s lp (VAt v)) SRoot q = Some lq) by (rewrite (find_leaf_same s lp tp v Hvp Hxp SRoot q); exact Hq).
  assert (F2 : find_leaf (set_val s lq (VAt w)) SRoot p = Some lp) by (rewrite (find_leaf_same s lq tq w Hvq Hxq SRoot p); exact Hp).
  unfold m_set. rewrite F1, F2. cbn [fst]. apply set_val_comm, Hn.
Qed.
Print Assumptions set_leaves_commute.

(* Design spike: the heap model of attribute sets (values tree + attrpath_order aliasing) and of
   set_value / remove_value, ported from notes/probes/edit_model.py.  State is threaded explicitly;
   a failing operation returns the state as mutated so far (C08 is then a real statement). *)
From Coq Require Import List Ascii String Bool Arith Lia.
Import ListNotations.
Notation str := (list ascii).

Fixpoint streq (a b : str) : bool :=
  match a, b with [], [] => true | x :: a', y :: b' => Ascii.eqb x y && streq a' b' | _, _ => false end.
Fixpoint segs_eq (a b : list str) : bool :=
  match a, b with [], [] => true | x :: a', y :: b' => streq x y && segs_eq a' b' | _, _ => false end.

(* ---------- state ---------- *)
Inductive oentry := OPlain (b : nat) | OPath (segs : list str) (leaf : nat).
Inductive value := VAt (t : str) | VSet (vals : list nat) (order : list oentry) (ml : bool).
Record binding := { bname : str; bval : value; bnested : bool }.
Record st := { hp : list (nat * binding); nxt : nat; rvals : list nat; rorder : list oentry; rml : bool }.
Inductive sref := SRoot | SOwn (owner : nat).           (* which set object is meant *)
Inductive err := KeyErr | ValErr.
Inductive res (A : Type) := Ok (a : A) | Err (e : err).
Arguments Ok {A} a. Arguments Err {A} e.

Fixpoint hget (h : list (nat * binding)) (i : nat) : option binding :=
  match h with [] => None | (k, b) :: t => if k =? i then Some b else hget t i end.
Fixpoint hset (h : list (nat * binding)) (i : nat) (b : binding) : list (nat * binding) :=
  match h with [] => [] | (k, b0) :: t => if k =? i then (k, b) :: t else (k, b0) :: hset t i b end.
Definition alloc (s : st) (b : binding) : st * nat :=
  ({| hp := (nxt s, b) :: hp s; nxt := S (nxt s); rvals := rvals s; rorder := rorder s; rml := rml s |}, nxt s).
Definition with_hp (s : st) (h : list (nat * binding)) : st :=
  {| hp := h; nxt := nxt s; rvals := rvals s; rorder := rorder s; rml := rml s |}.
Definition name_of (s : st) (i : nat) : str := match hget (hp s) i with Some b => bname b | None => [] end.
Definition nested_of (s : st) (i : nat) : bool := match hget (hp s) i with Some b => bnested b | None => false end.
Definition val_of (s : st) (i : nat) : value := match hget (hp s) i with Some b => bval b | None => VAt [] end.
Definition set_val (s : st) (i : nat) (v : value) : st :=
  match hget (hp s) i with
  | Some b => with_hp s (hset (hp s) i {| bname := bname b; bval := v; bnested := bnested b |})
  | None => s end.

(* read / write a set object *)
Definition get_set (s : st) (r : sref) : option (list nat * list oentry * bool) :=
  match r with
  | SRoot => Some (rvals s, rorder s, rml s)
  | SOwn o => match val_of s o with VSet v ord m => Some (v, ord, m) | VAt _ => None end
  end.
Definition put_set (s : st) (r : sref) (v : list nat) (ord : list oentry) (m : bool) : st :=
  match r with
  | SRoot => {| hp := hp s; nxt := nxt s; rvals := v; rorder := ord; rml := m |}
  | SOwn o => set_val s o (VSet v ord m)
  end.
Definition vals_of (s : st) (r : sref) : list nat := match get_set s r with Some (v, _, _) => v | None => [] end.
Definition is_vset (v : value) : bool := match v with VSet _ _ _ => true | _ => false end.

(* ---------- parsing a document (AttributeSet.from_cst with attrpath expansion/merge) ---------- *)
Inductive idoc := IAtom (t : str) | ISet (ml : bool) (items : list (list str * idoc)).

Fixpoint find_by_name (s : st) (ids : list nat) (key : str) : option nat :=
  match ids with [] => None | i :: t => if streq (name_of s i) key then Some i else find_by_name s t key end.
Fixpoint find_named (s : st) (ids : list nat) (key : str) (nested : option bool) : option nat :=
  match ids with
  | [] => None
  | i :: t =>
      if streq (name_of s i) key && (match nested with None => true | Some n => Bool.eqb (nested_of s i) n end)
      then Some i else find_named s t key nested
  end.

(* _extract_attrpath_leaf *)
Fixpoint extract_leaf (fuel : nat) (s : st) (v : value) (acc : list str) : option (list str * nat) :=
  match fuel with
  | O => None
  | S f =>
    match v with
    | VSet [c] _ _ =>
        if nested_of s c then
          (if is_vset (val_of s c) then extract_leaf f s (val_of s c) (acc ++ [name_of s c]) else None)
        else Some (acc ++ [name_of s c], c)
    | _ => None
    end
  end.

(* _merge_attrpath_sets target incoming : both are set objects owned by bindings *)
Fixpoint merge_sets (fuel : nat) (s : st) (target : nat) (incoming : list nat) : res st :=
  match fuel with
  | O => Err ValErr
  | S f =>
    match incoming with
    | [] => Ok s
    | iid :: rest =>
        match val_of s target with
        | VSet tv tord tm =>
            match find_by_name s tv (name_of s iid) with
            | None => merge_sets f (set_val s target (VSet (tv ++ [iid]) tord tm)) target rest
            | Some ex =>
                let both_sets := is_vset (val_of s ex) && is_vset (val_of s iid) in
                if nested_of s ex || nested_of s iid then
                  if nested_of s ex && nested_of s iid then
                    if both_sets then
                      match merge_sets f s ex (match val_of s iid with VSet v _ _ => v | _ => [] end) with
                      | Ok s' => merge_sets f s' target rest | Err e => Err e end
                    else Err ValErr
                  else if both_sets then merge_sets f (set_val s target (VSet (tv ++ [iid]) tord tm)) target rest
                  else Err ValErr
                else if both_sets then
                  match merge_sets f s ex (match val_of s iid with VSet v _ _ => v | _ => [] end) with
                  | Ok s' => merge_sets f s' target rest | Err e => Err e end
                else Err ValErr
            end
        | VAt _ => Err ValErr
        end
    end
  end.

(* _merge_attrpath_bindings over the raw roots; [firsts] remembers the first binding of each name *)
Fixpoint merge_bindings (fuel : nat) (s : st) (raw merged firsts : list nat) : res (st * list nat) :=
  match fuel with
  | O => Err ValErr
  | S f =>
    match raw with
    | [] => Ok (s, merged)
    | rid :: rest =>
        match find_by_name s firsts (name_of s rid) with
        | None => merge_bindings f s rest (merged ++ [rid]) (firsts ++ [rid])
        | Some ex =>
            let both_sets := is_vset (val_of s ex) && is_vset (val_of s rid) in
            if nested_of s ex || nested_of s rid then
              if nested_of s ex && nested_of s rid then
                if both_sets then
                  match merge_sets fuel s ex (match val_of s rid with VSet v _ _ => v | _ => [] end) with
                  | Ok s' => merge_bindings f s' rest merged firsts | Err e => Err e end
                else Err ValErr
              else if both_sets then merge_bindings f s rest (merged ++ [rid]) firsts
              else Err ValErr
            else merge_bindings f s rest (merged ++ [rid]) firsts
        end
    end
  end.

(* allocate the chain  a.b.c = v  : leaf first, then the nested roots *)
Fixpoint alloc_chain (s : st) (rev_prefix : list str) (cur : nat) : st * nat :=
  match rev_prefix with
  | [] => (s, cur)
  | seg :: t =>
      let '(s', i) := alloc s {| bname := seg; bval := VSet [cur] [] true; bnested := true |} in
      alloc_chain s' t i
  end.

Fixpoint parse_value (fuel : nat) (s : st) (d : idoc) : res (st * value) :=
  match fuel with
  | O => Err ValErr
  | S f =>
    match d with
    | IAtom t => Ok (s, VAt t)
    | ISet ml items =>
        (* allocate all bindings in order *)
        let step := fix step (s : st) (items : list (list str * idoc)) (raw : list nat) : res (st * list nat) :=
          match items with
          | [] => Ok (s, raw)
          | (segs, v) :: rest =>
              match parse_value f s v with
              | Err e => Err e
              | Ok (s1, pv) =>
                  let '(s2, leaf) := alloc s1 {| bname := last segs []; bval := pv; bnested := false |} in
                  let '(s3, root) := alloc_chain s2 (rev (removelast segs)) leaf in
                  step s3 rest (raw ++ [root])
              end
          end in
        match step s items [] with
        | Err e => Err e
        | Ok (s1, raw) =>
            let order := map (fun rid =>
                                if nested_of s1 rid then
                                  match extract_leaf (S (List.length (hp s1))) s1 (val_of s1 rid) [name_of s1 rid] with
                                  | Some (sg, leaf) => OPath sg leaf | None => OPlain rid end
                                else OPlain rid) raw in
            match merge_bindings (S (List.length raw)) s1 raw [] [] with
            | Err e => Err e
            | Ok (s2, values) => Ok (s2, VSet values order ml)
            end
        end
    end
  end.

Definition parse_doc (d : idoc) : res st :=
  let s0 := {| hp := []; nxt := 0; rvals := []; rorder := []; rml := true |} in
  match parse_value 1000 s0 d with
  | Ok (s, VSet v ord m) => Ok {| hp := hp s; nxt := nxt s; rvals := v; rorder := ord; rml := m |}
  | Ok _ => Err ValErr
  | Err e => Err e
  end.

(* ---------- the printed view: what _render_bindings emits ---------- *)
Inductive tree := TA (t : str) | TS (items : list (str * tree)).
Definition dot : ascii := ".".
Fixpoint joindot (l : list str) : str := match l with [] => [] | [x] => x | x :: t => x ++ dot :: joindot t end.

(* nested attrpath roots are flattened into dotted names; [lv] renders the value of a leaf binding *)
Fixpoint expand (s : st) (lv : nat -> tree) (g : nat) (bid : nat) (prefix : list str) : option (list (str * tree)) :=
  match g with
  | O => None
  | S g' =>
    match val_of s bid with
    | VSet cv _ _ =>
        fold_left (fun acc iid =>
          match acc with
          | None => None
          | Some out =>
              if nested_of s iid then
                (if is_vset (val_of s iid) then
                   match expand s lv g' iid (prefix ++ [name_of s iid]) with
                   | Some more => Some (out ++ more) | None => None end
                 else None)
              else Some (out ++ [(joindot (prefix ++ [name_of s iid]), lv iid)])
          end) cv (Some [])
    | VAt _ => None
    end
  end.

(* [ar owner text]: how the atom owned by binding [owner] is shown (identity for the real view; an override is
   used to state locality of edits).  [o] is the binding that owns [v] (None for the root set). *)
Fixpoint view_value_g (ar : nat -> str -> str) (fuel : nat) (s : st) (o : option nat) (v : value) : tree :=
  match fuel with
  | O => TA []
  | S f =>
    match v with
    | VAt t => TA (match o with Some i => ar i t | None => t end)
    | VSet vals order _ =>
        match vals with
        | [] => TS []                      (* AttributeSet.rebuild tests `values` first *)
        | _ =>
          let rv := match order with [] => map OPlain vals | _ => order end in
          let lv := fun i => view_value_g ar f s (Some i) (val_of s i) in
          TS (flat_map (fun e =>
                match e with
                | OPath sg leaf => [(joindot sg, lv leaf)]
                | OPlain bid =>
                    if nested_of s bid then
                      match expand s lv f bid [name_of s bid] with
                      | Some l => l
                      | None => [(name_of s bid, lv bid)]
                      end
                    else [(name_of s bid, lv bid)]
                end) rv)
        end
    end
  end.
Definition view_value (fuel : nat) (s : st) (v : value) : tree := view_value_g (fun _ t => t) fuel s None v.
Definition view (s : st) : tree := view_value 1000 s (VSet (rvals s) (rorder s) (rml s)).

(* ---------- operations (cli/manipulations.py, set.py) ---------- *)
Fixpoint find_root (s : st) (ids : list nat) (root : str) : option nat :=
  match ids with
  | [] => None
  | i :: t => if nested_of s i && streq (name_of s i) root then Some i else find_root s t root
  end.

(* _walk_attrpath_stack : list of (set reference, binding) ; None = not found ; Err when require_root *)
Fixpoint walk_loop (s : st) (cur : sref) (segs : list str) (leaf_nested require : bool)
         (stack : list (sref * nat)) : res (option (list (sref * nat))) :=
  match segs with
  | [] => Ok (Some stack)
  | seg :: rest =>
      let is_leaf := match rest with [] => true | _ => false end in
      match find_named s (vals_of s cur) seg (Some (if is_leaf then leaf_nested else true)) with
      | None => if require then Err KeyErr else Ok None
      | Some b =>
          let stack' := stack ++ [(cur, b)] in
          if is_leaf then Ok (Some stack')
          else if is_vset (val_of s b) then walk_loop s (SOwn b) rest leaf_nested require stack'
          else if require then Err ValErr else Ok None
      end
  end.
Definition walk_stack (s : st) (r : sref) (segs : list str) (leaf_nested require : bool)
  : res (option (list (sref * nat))) :=
  match segs with
  | [] | [_] => if require then Err KeyErr else Ok None
  | s0 :: rest =>
      match find_root s (vals_of s r) s0 with
      | None => if require then Err KeyErr else Ok None
      | Some root =>
          if is_vset (val_of s root) then walk_loop s (SOwn root) rest leaf_nested require [(r, root)]
          else if require then Err KeyErr else Ok None
      end
  end.
Definition find_leaf (s : st) (r : sref) (segs : list str) : option nat :=
  match walk_stack s r segs false false with
  | Ok (Some stack) => match last stack (SRoot, 0) with (_, b) => Some b end
  | _ => None
  end.

(* append a brand-new binding to a set object; returns its id (Python keeps the new object) *)
Definition append_new (s : st) (r : sref) (key : str) (v : value) : st * nat :=
  let '(s1, nb) := alloc s {| bname := key; bval := v; bnested := false |} in
  match get_set s1 r with
  | Some (vals, ord, m) => (put_set s1 r (vals ++ [nb]) (match ord with [] => [] | _ => ord ++ [OPlain nb] end) m, nb)
  | None => (s1, nb)
  end.
Definition set_setitem (s : st) (r : sref) (key : str) (v : value) : st :=
  match find_by_name s (vals_of s r) key with
  | Some i => set_val s i v
  | None => fst (append_new s r key v)
  end.
Fixpoint remove_first (l : list nat) (x : nat) : list nat :=
  match l with [] => [] | y :: t => if y =? x then t else y :: remove_first t x end.
Fixpoint remove_plain (l : list oentry) (x : nat) : list oentry :=
  match l with
  | [] => []
  | OPlain y :: t => if y =? x then t else OPlain y :: remove_plain t x
  | e :: t => e :: remove_plain t x
  end.
Fixpoint remove_path (l : list oentry) (leaf : nat) : list oentry :=
  match l with
  | [] => []
  | OPath sg y :: t => if y =? leaf then t else OPath sg y :: remove_path t leaf
  | e :: t => e :: remove_path t leaf
  end.
Definition set_delitem (s : st) (r : sref) (key : str) : st * res unit :=
  match get_set s r with
  | None => (s, Err KeyErr)
  | Some (vals, ord, m) =>
      match find_by_name s vals key with
      | None => (s, Err KeyErr)
      | Some i => (put_set s r (remove_first vals i) (remove_plain ord i) m, Ok tt)
      end
  end.

(* _set_attrpath_value *)
Fixpoint sav_loop (s : st) (cur : nat) (mid : list str) : st * res nat :=
  match mid with
  | [] => (s, Ok cur)
  | seg :: rest =>
      match val_of s cur with
      | VSet cv cord cm =>
          match find_named s cv seg (Some true) with
          | Some b =>
              if is_vset (val_of s b) then sav_loop s b rest else (s, Err ValErr)
          | None =>
              match find_named s cv seg (Some false) with
              | Some _ => (s, Err ValErr)
              | None =>
                  let '(s1, nb) := alloc s {| bname := seg; bval := VSet [] [] cm; bnested := true |} in
                  let s2 := set_val s1 cur (VSet (cv ++ [nb]) cord cm) in
                  sav_loop s2 nb rest
              end
          end
      | VAt _ => (s, Err ValErr)
      end
  end.
Definition set_attrpath_value (s : st) (r : sref) (root : nat) (segs : list str) (v : value) : st * res unit :=
  if negb (is_vset (val_of s root)) then (s, Err ValErr) else
  let mid := removelast (tl segs) in
  let fk := last segs [] in
  match sav_loop s root mid with
  | (s1, Err e) => (s1, Err e)
  | (s1, Ok cur) =>
      match val_of s1 cur with
      | VSet cv cord cm =>
          match find_named s1 cv fk (Some true) with
          | Some _ => (s1, Err ValErr)
          | None =>
              match find_named s1 cv fk (Some false) with
              | Some b => (set_val s1 b v, Ok tt)
              | None =>
                  let '(s2, nb) := alloc s1 {| bname := fk; bval := v; bnested := false |} in
                  let s3 := set_val s2 cur (VSet (cv ++ [nb]) cord cm) in
                  match get_set s3 r with
                  | Some (rv, rord, rm) =>
                      (put_set s3 r rv (match rord with [] => [] | _ => rord ++ [OPath segs nb] end) rm, Ok tt)
                  | None => (s3, Ok tt)
                  end
              end
          end
      | VAt _ => (s1, Err ValErr)
      end
  end.

(* _remove_attrpath_value *)
Fixpoint prune (s : st) (stack_rev : list (sref * nat)) : st :=
  match stack_rev with
  | [] => s
  | (parent, b) :: rest =>
      match val_of s b with
      | VSet [] _ _ =>
          match get_set s parent with
          | Some (pv, pord, pm) => prune (put_set s parent (remove_first pv b) pord pm) rest
          | None => s
          end
      | _ => s
      end
  end.
Definition remove_attrpath_value (s : st) (r : sref) (segs : list str) : st * res unit :=
  match walk_stack s r segs false true with
  | Err e => (s, Err e)
  | Ok None => (s, Err KeyErr)
  | Ok (Some stack) =>
      match last stack (SRoot, 0) with
      | (parent, leaf) =>
          match get_set s parent with
          | None => (s, Err KeyErr)
          | Some (pv, pord, pm) =>
              let s1 := put_set s parent (remove_first pv leaf) pord pm in
              let s2 := match get_set s1 r with
                        | Some (rv, rord, rm) => put_set s1 r rv (remove_path rord leaf) rm
                        | None => s1 end in
              (prune s2 (rev (removelast stack)), Ok tt)
          end
      end
  end.

(* _resolve_npath_parent *)
Fixpoint resolve_parent (s : st) (cur : sref) (prefix : list str) (create : bool) : st * res sref :=
  match prefix with
  | [] => (s, Ok cur)
  | seg :: rest =>
      match find_by_name s (vals_of s cur) seg with
      | Some i =>
          if is_vset (val_of s i) then resolve_parent s (SOwn i) rest create else (s, Err ValErr)
      | None =>
          if create then
            let m := match get_set s cur with Some (_, _, m) => m | None => true end in
            let '(s1, nb) := append_new s cur seg (VSet [] [] m) in
            resolve_parent s1 (SOwn nb) rest create
          else (s, Err KeyErr)
      end
  end.

Definition m_set (s : st) (segs : list str) (v : value) : st * res unit :=
  let leaf := find_leaf s SRoot segs in
  let root := match segs with s0 :: _ => find_root s (rvals s) s0 | [] => None end in
  match leaf with
  | Some l => (set_val s l v, Ok tt)
  | None =>
      match segs with
      | [] => (s, Err ValErr)
      | [k] =>
          match root with
          | Some _ => (s, Err ValErr)
          | None => (set_setitem s SRoot k v, Ok tt)      (* existing binding updated, else appended *)
          end
      | _ =>
          match root with
          | Some rt => set_attrpath_value s SRoot rt segs v
          | None =>
              match resolve_parent s SRoot (removelast segs) true with
              | (s1, Err e) => (s1, Err e)
              | (s1, Ok parent) => (set_setitem s1 parent (last segs []) v, Ok tt)
              end
          end
      end
  end.
Definition m_rm (s : st) (segs : list str) : st * res unit :=
  let leaf := find_leaf s SRoot segs in
  let root := match segs with s0 :: _ => find_root s (rvals s) s0 | [] => None end in
  match leaf with
  | Some _ => remove_attrpath_value s SRoot segs
  | None =>
      match segs with
      | [] => (s, Err ValErr)
      | [k] =>
          match root with
          | Some _ => (s, Err KeyErr)
          | None => set_delitem s SRoot k
          end
      | _ =>
          match root with
          | Some _ => remove_attrpath_value s SRoot segs
          | None =>
              match resolve_parent s SRoot (removelast segs) false with
              | (s1, Err e) => (s1, Err e)
              | (s1, Ok parent) => set_delitem s1 parent (last segs [])
              end
          end
      end
  end.

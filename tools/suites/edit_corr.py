import sys, random, re, importlib.util
sys.path.insert(0,'/repo')
spec = importlib.util.spec_from_file_location('em','/verif/notes/probes/edit_model.py'); em = importlib.util.module_from_spec(spec); spec.loader.exec_module(em)
from nix_manipulator import parse
from nix_manipulator.parser import parse_to_ast
from nix_manipulator.cli.manipulations import set_value, remove_value
def q(t): return '(s "%s")' % t.replace('"','""')
def qs(l): return '[' + '; '.join(q(x) for x in l) + ']'
def idoc(node):
    items=[]
    for c in node.children:
        if c.type!='binding_set': continue
        for b in c.children:
            if b.type!='binding': continue
            ap=b.child_by_field_name('attrpath'); val=b.child_by_field_name('expression')
            segs=[a.text.decode() for a in ap.children if a.type!='.']
            v = idoc(val) if val.type in ('attrset_expression','rec_attrset_expression') else 'IAtom %s' % q(' '.join(val.text.decode().split()))
            items.append('(%s, %s)' % (qs(segs), v))
    return '(ISet %s [%s])' % ('true' if b'\n' in node.text else 'false', '; '.join(items))
def tree(view):
    return 'TS [' + '; '.join('(%s, %s)' % (q(n), tree(v) if isinstance(v,list) else 'TA %s' % q(v)) for n,v in view) + ']'
if __name__=='__main__':
    seed=int(sys.argv[1]); N=int(sys.argv[2]); out=sys.argv[3]
    sys.argv=[sys.argv[0], str(seed), '0']
    exec(open('/verif/notes/probes/gen_canon.py').read().split('bad=0')[0])
    R2=random.Random(seed+99); cases=[]
    def allpaths(view, prefix=()):
        o=[]
        for n,v in view:
            p=prefix+tuple(n.split('.'))
            for k in range(len(prefix)+1, len(p)+1): o.append(p[:k])
            if isinstance(v,list): o+=allpaths(v,p)
        return o
    def lookup(view, path):
        for n,v in view:
            segs=tuple(n.split('.'))
            if tuple(path[:len(segs)])==segs:
                if len(path)==len(segs): return v
                if isinstance(v,list):
                    r=lookup(v, path[len(segs):])
                    if r is not None: return r
        return None
    while len(cases)<N:
        d=doc()
        if len(d)>700: continue
        root=parse_to_ast(d); top=[c for c in root.children if c.type!='comment'][0]
        try: src=parse(d)
        except ValueError: continue
        v0=em.impl_view(src.rebuild()); ops=[]; okcase=True
        for step in range(R2.randrange(1,6)):
            view=em.impl_view(src.rebuild()); paths=sorted(set(allpaths(view)))
            r=R2.random()
            if paths and r<0.5: p=list(R2.choice(paths))
            elif paths and r<0.8: p=list(R2.choice(paths))[:-1]+['fresh%d'%step]
            elif paths: p=list(R2.choice(paths))+['deep%d'%step] + (['x'] if R2.random()<0.3 else [])
            else: p=['k']
            if any(not re.fullmatch(r"[A-Za-z_][A-Za-z0-9_']*", x) for x in p): okcase=False; break
            op=R2.choice(['set','set','rm']); val=str(R2.randrange(1000,2000))
            cur=lookup(view,p)
            if op=='set' and isinstance(cur,str) and re.fullmatch(r"[A-Za-z_][A-Za-z0-9_']*", cur) and cur not in ('true','false','null'): continue
            try:
                o=(set_value(src,'.'.join(p),val) if op=='set' else remove_value(src,'.'.join(p))); e='EOk (%s)' % tree(em.impl_view(o))
            except KeyError: e='EKey (%s)' % tree(em.impl_view(src.rebuild()))
            except ValueError: e='EVal (%s)' % tree(em.impl_view(src.rebuild()))
            ops.append('(%s, %s)' % (('OSet %s %s' % (qs(p), q(val))) if op=='set' else 'ORm %s' % qs(p), e))
        if okcase and ops: cases.append('(%s, %s, [%s])' % (idoc(top), tree(v0), '; '.join(ops)))
    with open(out,'w') as f:
        f.write('From Coq Require Import List Ascii String. Import ListNotations.\nFrom E Require Import EditModel EditRun.\nOpen Scope string_scope.\n')
        f.write('Definition cases : list (idoc * tree * list (opk * exp)) := [\n' + ';\n'.join(cases) + '\n].\nEval vm_compute in (List.length cases, bad 0 cases).\n')
    print('cases', len(cases))

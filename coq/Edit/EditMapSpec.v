(* C14 as a refinement: the mapping API on the top-level set (AttributeSet.__getitem__/__setitem__/__delitem__ as
   modelled by getitem / set_setitem / set_delitem on the edit heap) refines the simplest possible specification, an
   association list with "replace the first binding of that name, else append" and "remove the first binding of that
   name, else KeyError".  abs reads the abstract map off a concrete state.  The dictionary laws are then corollaries
   of the association-list laws, for every state, key, value and operation history. *)
From Coq Require Import List Ascii String Bool Arith Lia.
Import ListNotations.
From E Require Import EditModel EditProofs EditLaws.

Definition amap := list (str * value).
Fixpoint a_get (m : amap) (k : str) : option value :=
  match m with [] => None | (n, x) :: t => if streq n k then Some x else a_get t k end.
Fixpoint a_set (m : amap) (k : str) (v : value) : amap :=
  match m with [] => [(k, v)] | (n, x) :: t => if streq n k then (n, v) :: t else (n, x) :: a_set t k v end.
Fixpoint a_del (m : amap) (k : str) : option amap :=
  match m with
  | [] => None
  | (n, x) :: t => if streq n k then Some t else match a_del t k with Some t' => Some ((n, x) :: t') | None => None end
  end.

Definition abs_ids (s : st) (ids : list nat) : amap := map (fun i => (name_of s i, val_of s i)) ids.
Definition abs (s : st) : amap := abs_ids s (rvals s).

(* ---------- lookups ---------- *)
Lemma getitem_abs_ids s ids k :
  match find_by_name s ids k with Some i => Some (val_of s i) | None => None end = a_get (abs_ids s ids) k.
Proof. induction ids as [|i t IH]; [reflexivity|]. cbn [find_by_name abs_ids map a_get]. destruct (streq (name_of s i) k); [reflexivity|exact IH]. Qed.
Theorem getitem_refines s k : getitem s SRoot k = a_get (abs s) k.
Proof. unfold getitem, abs. rewrite vals_root. apply getitem_abs_ids. Qed.

(* ---------- deletion ---------- *)
Lemma del_ids s ids k :
  match find_by_name s ids k with Some i => Some (abs_ids s (remove_first ids i)) | None => None end = a_del (abs_ids s ids) k.
Proof.
  induction ids as [|y t IH]; [reflexivity|]. cbn [find_by_name abs_ids map a_del].
  destruct (streq (name_of s y) k) eqn:E.
  - cbn [remove_first]. rewrite Nat.eqb_refl. reflexivity.
  - fold (abs_ids s t). rewrite <- IH. destruct (find_by_name s t k) as [i|] eqn:Ef; [|reflexivity].
    destruct (find_by_name_in _ _ _ _ Ef) as [_ Hn]. cbn [remove_first].
    destruct (y =? i) eqn:Ey; [apply Nat.eqb_eq in Ey; subst; congruence|]. reflexivity.
Qed.
Theorem delitem_refines s k :
  match a_del (abs s) k with
  | Some m' => snd (set_delitem s SRoot k) = Ok tt /\ abs (fst (set_delitem s SRoot k)) = m'
  | None => set_delitem s SRoot k = (s, Err KeyErr)
  end.
Proof.
  unfold abs. rewrite <- del_ids. unfold set_delitem. cbn [get_set].
  destruct (find_by_name s (rvals s) k) as [i|]; [|reflexivity]. split; reflexivity.
Qed.

(* ---------- assignment ---------- *)
Lemma abs_ids_ext s s' ids : (forall j, In j ids -> name_of s' j = name_of s j /\ val_of s' j = val_of s j) ->
  abs_ids s' ids = abs_ids s ids.
Proof.
  induction ids as [|y t IH]; intros H; [reflexivity|]. cbn [abs_ids map]. destruct (H y (or_introl eq_refl)) as [-> ->].
  f_equal. apply IH. intros j Hj. apply H. now right.
Qed.
Lemma set_found_ids s ids k v i : (forall j, In j ids -> hget (hp s) j <> None) -> NoDup ids -> find_by_name s ids k = Some i ->
  abs_ids (set_val s i v) ids = a_set (abs_ids s ids) k v.
Proof.
  induction ids as [|y t IH]; intros Hex Hnd Hf; [discriminate|]. inversion Hnd as [|? ? Hnotin Hnd']; subst.
  cbn [find_by_name] in Hf. cbn [abs_ids map a_set]. destruct (streq (name_of s y) k) eqn:E.
  - injection Hf as <-. rewrite name_of_set_val, val_of_set_val_same by (apply Hex; now left). f_equal.
    apply abs_ids_ext. intros j Hj. split; [apply name_of_set_val|]. apply val_of_set_val_other. intros ->. contradiction.
  - destruct (find_by_name_in _ _ _ _ Hf) as [Hin Hn].
    assert (Hne : i <> y) by (intros ->; congruence).
    rewrite name_of_set_val, (val_of_set_val_other s i y v Hne). f_equal. apply IH; [|exact Hnd'|exact Hf].
    intros j Hj. apply Hex. now right.
Qed.
Lemma a_set_fresh m k v : a_get m k = None -> a_set m k v = m ++ [(k, v)].
Proof. induction m as [|[n x] t IH]; [reflexivity|]. cbn [a_get a_set app]. destruct (streq n k); [discriminate|]. intros H. now rewrite IH. Qed.

Theorem setitem_refines s k v : heap_ok s -> vals_ok s -> NoDup (rvals s) ->
  abs (set_setitem s SRoot k v) = a_set (abs s) k v.
Proof.
  intros Hok Hvals Hnd. unfold abs.
  destruct (find_by_name s (rvals s) k) as [i|] eqn:Ef.
  - rewrite (setitem_root_found s k v i Ef), rvals_set_val. apply set_found_ids; assumption.
  - rewrite (setitem_root_fresh s k v Ef). destruct (append_root s k v) as [Hr Hh].
    set (s1 := fst (append_new s SRoot k v)) in *. rewrite Hr.
    assert (Hget : a_get (abs_ids s (rvals s)) k = None) by (rewrite <- getitem_abs_ids, Ef; reflexivity).
    rewrite (a_set_fresh _ _ _ Hget). unfold abs_ids at 1. rewrite map_app. cbn [map]. f_equal.
    + apply abs_ids_ext. intros j Hj. pose proof (old_lt s Hok Hvals j Hj) as Hlt.
      unfold name_of, val_of. rewrite Hh. cbn [hget]. destruct (nxt s =? j) eqn:E; [apply Nat.eqb_eq in E; congruence|]. split; reflexivity.
    + unfold name_of, val_of. rewrite Hh. cbn [hget]. rewrite Nat.eqb_refl. reflexivity.
Qed.

(* ---------- the invariants the refinement needs are preserved by every operation ---------- *)
Definition map_inv (s : st) : Prop := heap_ok s /\ vals_ok s /\ NoDup (rvals s).
Lemma remove_first_incl l i j : In j (remove_first l i) -> In j l.
Proof. induction l as [|y t IH]; [intros []|]. cbn [remove_first]. destruct (y =? i); [now right|]. intros [->|H]; [now left|right; now apply IH]. Qed.
Lemma remove_first_nodup l i : NoDup l -> NoDup (remove_first l i).
Proof.
  induction l as [|y t IH]; intros H; [constructor|]. inversion H; subst. cbn [remove_first]. destruct (y =? i); [assumption|].
  constructor; [|now apply IH]. intros Hin. apply remove_first_incl in Hin. contradiction.
Qed.
Lemma map_inv_del s k : map_inv s -> map_inv (fst (set_delitem s SRoot k)).
Proof.
  intros (Hok & Hvals & Hnd). split; [apply heap_ok_set_delitem, Hok|]. unfold set_delitem. cbn [get_set].
  destruct (find_by_name s (rvals s) k) as [i|]; [|split; assumption]. cbn [fst put_set]. split.
  - intros j Hj. cbn [rvals hp] in *. apply Hvals. eapply remove_first_incl, Hj.
  - cbn [rvals]. apply remove_first_nodup, Hnd.
Qed.
Lemma hget_set_val_some s i v j : hget (hp s) j <> None -> hget (hp (set_val s i v)) j <> None.
Proof.
  intros H. unfold set_val. destruct (hget (hp s) i) as [b|] eqn:E; [|exact H]. cbn [hp with_hp].
  destruct (Nat.eq_dec i j) as [->|Hn]; [rewrite (hget_hset_same _ _ _ _ E); discriminate|now rewrite hget_hset_other].
Qed.
Lemma NoDup_snoc (l : list nat) x : NoDup l -> ~ In x l -> NoDup (l ++ [x]).
Proof.
  induction l as [|y t IH]; intros Hnd Hx; [constructor; [intros []|constructor]|]. inversion Hnd; subst. cbn [app].
  constructor; [|apply IH; [assumption|intros H; apply Hx; now right]].
  intros Hin. apply in_app_or in Hin. destruct Hin as [Hin|[<-|[]]]; [contradiction|apply Hx; now left].
Qed.
Lemma map_inv_set s k v : map_inv s -> map_inv (set_setitem s SRoot k v).
Proof.
  intros (Hok & Hvals & Hnd). split; [apply heap_ok_set_setitem, Hok|].
  destruct (find_by_name s (rvals s) k) as [i|] eqn:Ef.
  - rewrite (setitem_root_found s k v i Ef). split; [|now rewrite rvals_set_val].
    intros j Hj. rewrite rvals_set_val in Hj. apply hget_set_val_some, Hvals, Hj.
  - rewrite (setitem_root_fresh s k v Ef). destruct (append_root s k v) as [Hr Hh]. split.
    + intros j Hj. rewrite Hr in Hj. rewrite Hh. cbn [hget]. destruct (nxt s =? j) eqn:E; [discriminate|].
      apply in_app_or in Hj. destruct Hj as [Hj|[<-|[]]]; [apply Hvals, Hj|rewrite Nat.eqb_refl in E; discriminate].
    + rewrite Hr. apply NoDup_snoc; [exact Hnd|]. intros Hin. exact (old_lt s Hok Hvals _ Hin eq_refl).
Qed.

(* ---------- whole histories: any sequence of lookups, assignments and deletions ---------- *)
Inductive aop := AGet (k : str) | ASet (k : str) (v : value) | ADel (k : str).
Inductive aout := OVal (o : option value) | ODone | OKeyErr.
Definition cstep (s : st) (o : aop) : st * aout :=
  match o with
  | AGet k => (s, OVal (getitem s SRoot k))
  | ASet k v => (set_setitem s SRoot k v, ODone)
  | ADel k => match set_delitem s SRoot k with (s', Ok _) => (s', ODone) | (s', Err _) => (s', OKeyErr) end
  end.
Definition astep (m : amap) (o : aop) : amap * aout :=
  match o with
  | AGet k => (m, OVal (a_get m k))
  | ASet k v => (a_set m k v, ODone)
  | ADel k => match a_del m k with Some m' => (m', ODone) | None => (m, OKeyErr) end
  end.
Fixpoint crun (s : st) (ops : list aop) : st * list aout :=
  match ops with [] => (s, []) | o :: t => let '(s1, x) := cstep s o in let '(s2, xs) := crun s1 t in (s2, x :: xs) end.
Fixpoint arun (m : amap) (ops : list aop) : amap * list aout :=
  match ops with [] => (m, []) | o :: t => let '(m1, x) := astep m o in let '(m2, xs) := arun m1 t in (m2, x :: xs) end.

Lemma step_refines s o : map_inv s ->
  map_inv (fst (cstep s o)) /\ abs (fst (cstep s o)) = fst (astep (abs s) o) /\ snd (cstep s o) = snd (astep (abs s) o).
Proof.
  intros Hinv. destruct o as [k|k v|k]; cbn [cstep astep fst snd].
  - split; [exact Hinv|]. split; [reflexivity|]. now rewrite getitem_refines.
  - split; [apply map_inv_set, Hinv|]. split; [|reflexivity]. destruct Hinv as (H1 & H2 & H3). now apply setitem_refines.
  - pose proof (delitem_refines s k) as Hd. pose proof (map_inv_del s k Hinv) as Hi.
    destruct (a_del (abs s) k) as [m'|].
    + destruct Hd as [Hr Ha]. destruct (set_delitem s SRoot k) as [s' r]. cbn [fst snd] in *. subst r. cbn [fst snd]. auto.
    + rewrite Hd. cbn [fst snd]. auto.
Qed.
Theorem run_refines : forall ops s, map_inv s ->
  map_inv (fst (crun s ops)) /\ abs (fst (crun s ops)) = fst (arun (abs s) ops) /\ snd (crun s ops) = snd (arun (abs s) ops).
Proof.
  induction ops as [|o t IH]; intros s Hinv; [cbn; auto|]. cbn [crun arun].
  destruct (step_refines s o Hinv) as (Hi & Ha & Ho).
  destruct (cstep s o) as [s1 x]. destruct (astep (abs s) o) as [m1 y]. cbn [fst snd] in *. subst m1 y.
  destruct (IH s1 Hi) as (Hi2 & Ha2 & Ho2).
  destruct (crun s1 t) as [s2 xs]. destruct (arun (abs s1) t) as [m2 ys]. cbn [fst snd] in *. subst. auto.
Qed.

(* ---------- dictionary laws of the specification ---------- *)
Lemma streq_sym a b : streq a b = streq b a.
Proof. revert b; induction a as [|x a IH]; destruct b as [|y b]; cbn [streq]; try reflexivity. now rewrite IH, Ascii.eqb_sym. Qed.
Lemma streq_trans_false n k k' : streq n k = true -> streq k' k = false -> streq n k' = false.
Proof. intros H1 H2. apply streq_eq in H1. subst. now rewrite streq_sym. Qed.
Lemma a_get_set_same m k v : a_get (a_set m k v) k = Some v.
Proof. induction m as [|[n x] t IH]; cbn [a_set a_get]; [now rewrite streq_refl|]. destruct (streq n k) eqn:E; cbn [a_get]; rewrite E; [reflexivity|exact IH]. Qed.
Lemma a_get_set_other m k v k' : streq k' k = false -> a_get (a_set m k v) k' = a_get m k'.
Proof.
  intros Hne. induction m as [|[n x] t IH]; cbn [a_set a_get].
  - rewrite streq_sym, Hne. reflexivity.
  - destruct (streq n k) eqn:E; cbn [a_get]; [rewrite (streq_trans_false _ _ _ E Hne); reflexivity|].
    destruct (streq n k'); [reflexivity|exact IH].
Qed.
Lemma a_get_del_other m k m' k' : a_del m k = Some m' -> streq k' k = false -> a_get m' k' = a_get m k'.
Proof.
  revert m'. induction m as [|[n x] t IH]; intros m' Hd Hne; [discriminate|]. cbn [a_del] in Hd. cbn [a_get].
  destruct (streq n k) eqn:E.
  - injection Hd as <-. now rewrite (streq_trans_false _ _ _ E Hne).
  - destruct (a_del t k) as [t'|]; [|discriminate]. injection Hd as <-. cbn [a_get]. destruct (streq n k'); [reflexivity|]. now apply IH.
Qed.
Lemma a_del_none_iff m k : a_del m k = None <-> a_get m k = None.
Proof.
  induction m as [|[n x] t IH]; [split; reflexivity|]. cbn [a_del a_get]. destruct (streq n k); [split; discriminate|].
  destruct (a_del t k); split; intros H; try discriminate; try reflexivity; [apply IH in H; discriminate| apply IH; exact H].
Qed.
Definition uniq_names (m : amap) : Prop := NoDup (map fst m).
Lemma a_get_in m k v : a_get m k = Some v -> In k (map fst m).
Proof. induction m as [|[n x] t IH]; [discriminate|]. cbn [a_get map fst]. destruct (streq n k) eqn:E; [apply streq_eq in E; now left|right; now apply IH]. Qed.
Lemma a_get_del_same m k m' : uniq_names m -> a_del m k = Some m' -> a_get m' k = None.
Proof.
  revert m'. induction m as [|[n x] t IH]; intros m' Hu Hd; [discriminate|]. inversion Hu as [|? ? Hnotin Hu']; subst.
  cbn [a_del] in Hd. destruct (streq n k) eqn:E.
  - injection Hd as <-. apply streq_eq in E. subst n. destruct (a_get t k) as [v|] eqn:G; [|reflexivity].
    apply a_get_in in G. contradiction.
  - destruct (a_del t k) as [t'|] eqn:D; [|discriminate]. injection Hd as <-. cbn [a_get]. rewrite E. now apply IH.
Qed.
(* without unique names the law is false: deleting one of two bindings of the same name leaves the other visible
   (Nix itself rejects such a set at evaluation time, the parser does not) *)
Example a_get_del_same_needs_uniq :
  exists m k m', a_del m k = Some m' /\ a_get m' k <> None.
Proof. exists [(["a"%char], VAt []); (["a"%char], VAt [])], ["a"%char], [(["a"%char], VAt [])]. split; [reflexivity|discriminate]. Qed.

(* ---------- the same laws for the concrete operations ---------- *)
Theorem get_other_after_del s k k' : streq k' k = false ->
  getitem (fst (set_delitem s SRoot k)) SRoot k' = getitem s SRoot k'.
Proof.
  intros Hne. pose proof (delitem_refines s k) as H. rewrite !getitem_refines.
  destruct (a_del (abs s) k) as [m'|] eqn:D; [destruct H as [_ ->]; eapply a_get_del_other; eassumption|now rewrite H].
Qed.
Theorem get_after_del s k : uniq_names (abs s) -> snd (set_delitem s SRoot k) = Ok tt ->
  getitem (fst (set_delitem s SRoot k)) SRoot k = None.
Proof.
  intros Hu Hok. pose proof (delitem_refines s k) as H. rewrite getitem_refines.
  destruct (a_del (abs s) k) as [m'|] eqn:D; [destruct H as [_ ->]; eapply a_get_del_same; eassumption|].
  rewrite H in Hok. discriminate.
Qed.
Theorem del_missing s k : getitem s SRoot k = None -> set_delitem s SRoot k = (s, Err KeyErr).
Proof.
  intros Hg. rewrite getitem_refines in Hg. apply a_del_none_iff in Hg. pose proof (delitem_refines s k) as H. now rewrite Hg in H.
Qed.
Theorem del_present s k v : getitem s SRoot k = Some v -> snd (set_delitem s SRoot k) = Ok tt.
Proof.
  intros Hg. rewrite getitem_refines in Hg. pose proof (delitem_refines s k) as H.
  destruct (a_del (abs s) k) eqn:D; [exact (proj1 H)|]. apply a_del_none_iff in D. congruence.
Qed.

(* decidable form of the invariant, evaluated by the mapping correspondence on the parsed state of every case *)
Fixpoint nodupb (l : list nat) : bool := match l with [] => true | x :: t => negb (existsb (Nat.eqb x) t) && nodupb t end.
Lemma nodupb_sound l : nodupb l = true -> NoDup l.
Proof.
  induction l as [|x t IH]; intros H; [constructor|]. cbn [nodupb] in H. apply andb_prop in H. destruct H as [H1 H2].
  constructor; [|now apply IH]. intros Hin. apply negb_true_iff in H1. assert (existsb (Nat.eqb x) t = true); [|congruence].
  apply existsb_exists. exists x. split; [exact Hin|apply Nat.eqb_refl].
Qed.
Definition map_invb (s : st) : bool :=
  heap_okb s && forallb (fun i => match hget (hp s) i with Some _ => true | None => false end) (rvals s) && nodupb (rvals s).
Lemma map_invb_sound s : map_invb s = true -> map_inv s.
Proof.
  unfold map_invb. intros H. apply andb_prop in H. destruct H as [H H3]. apply andb_prop in H. destruct H as [H1 H2].
  split; [apply heap_okb_ok, H1|]. split; [|apply nodupb_sound, H3].
  intros i Hi. rewrite forallb_forall in H2. specialize (H2 i Hi). destruct (hget (hp s) i); [discriminate|discriminate].
Qed.

(* ---------- C19 law 3 at the top level: rm followed by set of the removed value restores the same attribute tree ----------
   (as a mapping: every key reads as before; the binding moves to the end of the printed set, which is why the
   property speaks of the attribute tree and not of the text) *)
Lemma a_del_set_same_tree m k v m' : a_get m k = Some v -> a_del m k = Some m' ->
  forall k', a_get (a_set m' k v) k' = a_get m k'.
Proof.
  intros Hg Hd k'. destruct (streq k' k) eqn:E.
  - apply streq_eq in E. subst k'. now rewrite a_get_set_same.
  - rewrite (a_get_set_other _ _ _ _ E). eapply a_get_del_other; eassumption.
Qed.
Theorem rm_then_set_same_tree s k v : map_inv s -> getitem s SRoot k = Some v ->
  snd (set_delitem s SRoot k) = Ok tt /\
  forall k', getitem (set_setitem (fst (set_delitem s SRoot k)) SRoot k v) SRoot k' = getitem s SRoot k'.
Proof.
  intros Hinv Hg. split; [eapply del_present; exact Hg|]. intros k'.
  pose proof (map_inv_del s k Hinv) as (H1 & H2 & H3). rewrite getitem_refines, (setitem_refines _ _ _ H1 H2 H3), getitem_refines.
  rewrite getitem_refines in Hg. pose proof (delitem_refines s k) as Hd.
  destruct (a_del (abs s) k) as [m'|] eqn:D.
  - destruct Hd as [_ ->]. eapply a_del_set_same_tree; eassumption.
  - apply a_del_none_iff in D. congruence.
Qed.

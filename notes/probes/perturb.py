import sys, random, collections
sys.path.insert(0,'/repo')
from nix_manipulator import parse
from nix_manipulator.parser import parse_to_ast
import importlib.util
spec = importlib.util.spec_from_file_location('gc', 'notes/probes/gen_canon.py')
R = random.Random(int(sys.argv[1]))
def leaves(n, out):
    if n.type in ('string_expression','indented_string_expression','comment','path_expression','spath_expression','hpath_expression') or n.child_count==0:
        if n.end_byte>n.start_byte: out.append(n)
        return
    for c in n.children: leaves(c, out)
def toks(s):
    root = parse_to_ast(s)
    if root.has_error: return None
    out=[]; leaves(root,out)
    return [(n.type, n.text.decode()) for n in out]
def code(ts): return [t for t in ts if t[0]!='comment']
def cmts(ts):
    import re
    def norm(t):
        return re.sub(r'\s+',' ',t)
    return [norm(t[1]) for t in ts if t[0]=='comment']
WS = [' ', '  ', '\t', '\n', '\n\n', '\n  ', ' \n ', '\n\n\n   ', '   \n\t\n ']
def gap(orig, mode):
    r = R.random()
    if mode=='ws':
        if orig=='' : return '' if r<0.8 else R.choice(WS)
        return R.choice(WS)
    # comments
    if r<0.75:
        return orig if orig else ''
    k = R.randrange(4)
    pre = R.choice(['',' ','\n','\n  ', '\n\n'])
    post = R.choice(['\n','\n  ','\n\n '])
    if k==0: return pre + '# lc' + post
    if k==1: return pre + '/* bc */' + R.choice([' ','\n','\n  ',''])
    if k==2: return pre + '/* ml\n   more */' + R.choice([' ','\n','\n  '])
    return pre + '#lc2' + post
def perturb(s, mode):
    root = parse_to_ast(s)
    out=[]; leaves(root,out)
    res=''; pos=0
    for n in out:
        g = s.encode()[pos:n.start_byte].decode()
        res += gap(g, mode) if pos>0 else g
        res += n.text.decode(); pos=n.end_byte
    res += s.encode()[pos:].decode()
    return res
sys.argv=[sys.argv[0], sys.argv[1], '0']
exec(open('notes/probes/gen_canon.py').read().split('bad=0')[0])
stats=collections.Counter(); ex={}
N=int(sys.argv[2]) if False else 1500
mode = 'ws'
import os
mode=os.environ.get('MODE','ws')
for i in range(N):
    d = doc(); p = perturb(d, mode)
    t0 = toks(p)
    if t0 is None: stats['perturbed-invalid']+=1; continue
    if code(t0)!=code(toks(d)): stats['perturb-changed-tokens']+=1; continue
    try:
        r = parse(p).rebuild()
    except Exception as e:
        stats['exc:'+type(e).__name__]+=1; ex.setdefault('exc',(p,str(e))); continue
    t1 = toks(r)
    if t1 is None: stats['C01-out-invalid']+=1; ex.setdefault('inv',(p,r)); continue
    if code(t1)!=code(t0): stats['C01-tokens']+=1; ex.setdefault('tok',(p,r))
    if cmts(t1)!=cmts(t0): stats['C03-comments']+=1; ex.setdefault('cm',(p,r))
    r2 = parse(r).rebuild()
    if r2!=r: stats['C06-drift']+=1; ex.setdefault('drift',(p,r,r2))
    import re
    # crude C18 outside strings/comments: tabs / trailing ws / double blank
    if re.search(r'[ \t]+\n', r) or '\n\n\n' in r or '\t' in r: stats['C18-crude']+=1; ex.setdefault('c18',(p,r))
    stats['ok-run']+=1
print(mode, dict(stats))
for k,v in ex.items():
    print('=====',k)
    for x in v: print(repr(x))

"""Independent readers over the tree-sitter CST (no nix_manipulator AST involved): attribute names, attribute trees,
code tokens, comments.  Used by the counter-example searches (L3); nothing here is a proof."""
import os, sys
sys.path.insert(0, os.environ.get('NIMA_REPO', '/repo'))
import tree_sitter_nix as tsn
from tree_sitter import Language, Parser
_P = Parser(Language(tsn.language()))

def ts(src):
    if isinstance(src, str): src = src.encode('utf8')
    return _P.parse(src).root_node

def has_error(n):
    return n.has_error

def nix_read(body):
    """Nix's reading of the body of a "..." literal without interpolation (flex rule + unescapeStr); None when the
    body contains an interpolation, an unescaped quote or a dangling backslash"""
    out, i, n = [], 0, len(body)
    while i < n:
        ch = body[i]
        if ch == '\\':
            if i + 1 >= n: return None
            e = body[i + 1]; out.append({'n': '\n', 'r': '\r', 't': '\t'}.get(e, e)); i += 2
        elif ch == '"': return None
        elif ch == '$':
            if i + 1 < n and body[i + 1] == '{': return None
            if i + 1 < n and body[i + 1] == '$': out.append('$$'); i += 2     # `$$` keeps both and protects a following `{`
            else: out.append('$'); i += 1
        else: out.append(ch); i += 1
    return ''.join(out)

def decode_string(node):
    t = node.text.decode('utf8', 'surrogateescape')
    if len(t) < 2 or t[0] != '"' or t[-1] != '"': return None
    return nix_read(t[1:-1])

def attr_names(attrpath):
    names = []
    for c in attrpath.children:
        if c.type == '.': continue
        if c.type == 'identifier': names.append(c.text.decode())
        elif c.type == 'string_expression':
            v = decode_string(c)
            if v is None: return None
            names.append(v)
        else: return None
    return names

def set_node(root):
    """descend from the source node to the attribute set an edit targets: through function heads, let, with,
    assert, parentheses and a call's argument"""
    n = root; lets = []; hops = 0
    while True:
        t = n.type
        if t in ('attrset_expression', 'rec_attrset_expression'): return n
        if t == 'variable_expression' and hops < 8:
            # a name on the spine (`let cfg = { … }; in cfg`, `… in mk cfg`): continue at the let binding that defines it
            nm = n.text.decode(); hit = None
            for L in reversed(lets):
                for c in L.children:
                    if c.type == 'binding_set':
                        for b in c.children:
                            if b.type == 'binding' and b.child_by_field_name('attrpath').text.decode() == nm: hit = b.child_by_field_name('expression')
                if hit is not None: break
            if hit is None: return None
            n = hit; hops += 1; continue
        if t == 'let_expression': lets.append(n)
        if t == 'source_code':
            ks = [c for c in n.children if c.type != 'comment']
            if len(ks) != 1: return None
            n = ks[0]; continue
        if t in ('function_expression', 'let_expression', 'with_expression', 'assert_expression'):
            n = n.child_by_field_name('body'); continue
        if t == 'parenthesized_expression':
            n = n.child_by_field_name('expression'); continue
        if t == 'apply_expression':
            n = n.child_by_field_name('argument'); continue
        return None

def bindings(setn):
    out = []
    for c in setn.children:
        if c.type == 'binding_set':
            out += [b for b in c.children if b.type in ('binding', 'inherit', 'inherit_from')]
    return out

def attr_tree(setn):
    """dict path-tuple -> value text (leaf) — attrpath bindings and nested explicit sets are both flattened;
    returns (tree, duplicates)"""
    tree, dups = {}, []
    def walk(s, prefix):
        for b in bindings(s):
            if b.type != 'binding': tree[prefix + ('<inherit:%s>' % b.text.decode(),)] = b.text.decode(); continue
            ap = b.child_by_field_name('attrpath'); val = b.child_by_field_name('expression')
            names = attr_names(ap)
            if names is None: names = [ap.text.decode()]
            p = prefix + tuple(names)
            if val.type in ('attrset_expression', 'rec_attrset_expression') and bindings(val):
                walk(val, p)
            else:
                if p in tree: dups.append(p)
                tree[p] = ' '.join(val.text.decode().split())
    walk(setn, ())
    return tree, dups

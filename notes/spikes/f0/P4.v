(* Proof spike, part 4: composing the sequence theorem with the recursion over the syntax tree
   (sub-fragment: atoms and lists; sets/bindings follow the same pattern with the binding-specific
   trailing function and quirk Q1). *)
From Coq Require Import List Ascii String Bool Arith Lia.
Import ListNotations.
From F0 Require Import F0s Specs P1 P2 P3.
Open Scope char_scope.

(* nested induction principle *)
Section CInd.
  Variable P : cnode -> Prop.
  Hypothesis Hat : forall i t, P (CAtom i t).
  Hypothesis Hc : forall r, P (CCmt r).
  Hypothesis Hb : forall n g1 g2 v g3, P v -> P (CBind n g1 g2 v g3).
  Hypothesis Hs : forall r gr body cg, Forall (fun gn => P (snd gn)) body -> P (CSet r gr body cg).
  Hypothesis Hl : forall body cg, Forall (fun gn => P (snd gn)) body -> P (CList body cg).
  Fixpoint cnode_ind' (c : cnode) : P c :=
    match c with
    | CAtom i t => Hat i t
    | CCmt r => Hc r
    | CBind n g1 g2 v g3 => Hb n g1 g2 v g3 (cnode_ind' v)
    | CSet r gr body cg =>
        Hs r gr body cg ((fix go (l : list (str * cnode)) : Forall (fun gn => P (snd gn)) l :=
                            match l with [] => Forall_nil _ | (g, n) :: t => Forall_cons (g, n) (cnode_ind' n) (go t) end) body)
    | CList body cg =>
        Hl body cg ((fix go (l : list (str * cnode)) : Forall (fun gn => P (snd gn)) l :=
                       match l with [] => Forall_nil _ | (g, n) :: t => Forall_cons (g, n) (cnode_ind' n) (go t) end) body)
    end.
End CInd.

(* well-formedness for the atoms+lists sub-fragment *)
Fixpoint no_double_b (prev : option cnode) (body : list (str * cnode)) : Prop :=
  match body with
  | [] => True
  | (g, c) :: rest =>
      (is_cmt c = true -> has_nl g = false -> match prev with Some p => is_cmt p = false | None => True end)
      /\ no_double_b (Some c) rest
  end.
Definition tok_ok (t : str) : Prop := t <> [] /\ ends_nl t = false.
Fixpoint wfL (c : cnode) : Prop :=
  match c with
  | CAtom isint t => tok_ok (if isint then strip_zeros t else t)
  | CCmt raw => cmt_ok raw
  | CBind _ _ _ _ _ => False
  | CSet _ _ _ _ => False
  | CList body cg =>
      (fix all (l : list (str * cnode)) : Prop := match l with [] => True | (_, n) :: t => wfL n /\ all t end) body
      /\ no_double_b None body
      /\ has_nl (ctext c) = true                                  (* multi-line layout *)
      /\ existsb (fun gn => negb (is_cmt (snd gn))) body = true   (* at least one item *)
  end.

Lemma wfL_all body : (fix all (l : list (str * cnode)) : Prop := match l with [] => True | (_, n) :: t => wfL n /\ all t end) body
                     -> Forall (fun gn => wfL (snd gn)) body.
Proof. induction body as [|[g n] t IH]; intros H; constructor; [apply H|apply IH, H]. Qed.

Definition conv (body : list (str * cnode)) : list kid := map (fun '(g, n) => (g, n, from_cst n)) body.
Lemma conv_fix body :
  (fix conv (l : list (str * cnode)) : list kid :=
     match l with [] => [] | (g, n) :: t => (g, n, from_cst n) :: conv t end) body = conv body.
Proof. induction body as [|[g n] t IH]; [reflexivity|]. cbn [conv map]. now rewrite IH. Qed.
Lemma strip_conv body : map strip2 (conv body) = body.
Proof. induction body as [|[g n] t IH]; [reflexivity|]. cbn [conv map strip2 fst snd]. fold (conv t). now rewrite IH. Qed.
Lemma no_double_conv prev body : no_double_b prev body -> no_double prev (conv body).
Proof. revert prev. induction body as [|[g n] t IH]; intros prev H; [exact I|]. destruct H as [H1 H2]. split; [exact H1|apply IH, H2]. Qed.
Lemma has_item_conv body : has_item (conv body) = existsb (fun gn => negb (is_cmt (snd gn))) body.
Proof. induction body as [|[g n] t IH]; [reflexivity|]. cbn [conv map has_item existsb fst snd]. fold (conv t). unfold has_item in IH. now rewrite IH. Qed.

Lemma from_cst_triv c : a_before (from_cst c) = [] /\ a_after (from_cst c) = [].
Proof.
  destruct c; cbn [from_cst]; try (split; reflexivity).
  - destruct (parse_seq true _ _ _ _); split; reflexivity.
  - destruct (parse_seq false _ _ _ _); split; reflexivity.
Qed.

Lemma ends_nl_close h A B C c : ends_nl (h :: A ++ LF :: B ++ C ++ [c]) = (c =c LF).
Proof.
  replace (h :: A ++ LF :: B ++ C ++ [c]) with ((h :: A ++ LF :: B ++ C) ++ [c]).
  - apply ends_nl_snoc.
  - cbn [app]. repeat rewrite <- app_assoc. cbn [app]. repeat rewrite <- app_assoc. reflexivity.
Qed.

Lemma pds_has_item inb : forall content l Q prev,
  has_item content = true -> fst (pds inb content l Q prev) <> [].
Proof.
  induction content as [|[[g c] a] rest IH]; intros l Q prev H; [discriminate|].
  cbn [pds]. cbn [has_item existsb fst snd] in H.
  destruct (is_cmt c) eqn:Ec.
  - cbn [negb orb] in H. match goal with |- context [if ?b then _ else _] => destruct b end; apply IH; exact H.
  - apply pds_nonempty. destruct l; discriminate.
Qed.
Lemma parse_seq_has_item inb content cg :
  has_item content = true -> fst (parse_seq inb content (Some cg) true []) <> [].
Proof.
  intros H. destruct content as [|[[g0 c] a] rest]; [discriminate|].
  rewrite parse_seq_finish. apply finish_nonempty. apply pds_has_item. exact H.
Qed.

Lemma bt_shape (J CS Rst : str) : LF :: J ++ CS ++ Rst = (LF :: J ++ CS) ++ Rst.
Proof. cbn [app]. now rewrite <- app_assoc. Qed.

Definition good (c : cnode) : Prop :=
  is_cmt c = false ->
  forall ind, (spec c ind <> [] /\ ends_nl (spec c ind) = false) /\
  forall B X inline, rebuild (mk (from_cst c) B X) None ind inline = lead B ind inline ++ spec c ind ++ T X ind.

Theorem rebuild_spec_L : forall c, wfL c -> good c.
Proof.
  induction c as [isint t|raw|n g1 g2 v g3 IHv|r gr body cg IHb|body cg IHb] using cnode_ind'; intros Hwf Hnc ind.
  - (* atom *)
    cbn [wfL] in Hwf. destruct Hwf as [Hne Hend]. cbn [spec from_cst mk set_before set_after]. split; [split; assumption|].
    intros B X inline. cbn [rebuild a_after]. unfold add_trivia. rewrite apply_trailing_T. unfold lead.
    repeat rewrite <- app_assoc. reflexivity.
  - discriminate.
  - destruct Hwf.
  - destruct Hwf.
  - (* list *)
    cbn [wfL] in Hwf. destruct Hwf as (Hall & Hnd & Hnl & Hitem).
    apply wfL_all in Hall.
    assert (Hb : body <> []) by (destruct body; [discriminate|discriminate]).
    rewrite (spec_list_multiline body cg ind Hb Hnl).
    split.
    { split; [discriminate|]. apply ends_nl_close. }
    intros B X inline.
    cbn [from_cst]. rewrite conv_fix.
    assert (Hk : Forall (kid_ok (ind + 2) (fun n => spec n (ind + 2)) (fun a => rebuild a None (ind + 2) false)) (conv body)).
    { clear Hnd Hnl Hitem Hb. induction body as [|[g n] t IHt]; [constructor|].
      inversion IHb as [|? ? Hn Ht]; subst. inversion Hall as [|? ? Hwn Hwt]; subst.
      cbn [conv map]. constructor; [|apply IHt; assumption].
      cbn [kid_ok snd] in *. destruct (is_cmt n) eqn:En.
      - destruct n; try discriminate. cbn [craw]. apply Hwn.
      - destruct (from_cst_triv n) as [Hbn Han]. specialize (Hn Hwn En (ind + 2)). destruct Hn as [[Hne Hend] HR].
        repeat split; try assumption. intros B0 X0. rewrite (HR B0 X0 false). unfold lead.
        repeat rewrite <- app_assoc. reflexivity. }
    pose proof (list_body (ind + 2) (fun n => spec n (ind + 2)) (fun a => rebuild a None (ind + 2) false) cg (conv body)
                  Hk (no_double_conv None body Hnd)) as HB.
    rewrite has_item_conv, strip_conv in HB. specialize (HB Hitem).
    destruct (parse_seq false (conv body) (Some cg) true []) as [values inner] eqn:Eps.
    cbn [fst] in HB.
    assert (Hv : values <> []).
    { pose proof (parse_seq_has_item false (conv body) cg) as Hh. rewrite has_item_conv, Eps in Hh. exact (Hh Hitem). }
    destruct body as [|b0 body']; [congruence|].
    cbn [mk set_before set_after]. rewrite Hnl.
    destruct values as [|v0 vs]; [congruence|].
    cbn [rebuild a_after]. rewrite apply_trailing_T.
    unfold BT in HB.
    set (J := join [LF] (map (fun a : ast => rebuild a None (ind + 2) false) (v0 :: vs))) in *.
    set (CS := closing_sep J) in *.
    repeat rewrite <- app_assoc. f_equal. cbn [app]. f_equal. repeat rewrite <- app_assoc.
    rewrite (bt_shape J CS). rewrite HB. cbn [app]. repeat rewrite <- app_assoc. reflexivity.
Qed.
Print Assumptions rebuild_spec_L.

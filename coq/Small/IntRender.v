(* Design spike for C13 (integers): Python's str(int) modelled as the standard decimal printer; reading the
   printed text back gives the same integer, for every integer. *)
From Coq Require Import ZArith String Decimal DecimalString DecimalZ.
Open Scope Z_scope.
Definition render_int (z : Z) : string := NilZero.string_of_int (Z.to_int z).
Definition read_int (s : string) : option Z := option_map Z.of_int (NilZero.int_of_string s).
Theorem C13_int : forall z, read_int (render_int z) = Some z.
Proof.
  intros z. unfold read_int, render_int.
  assert (Hnil : forall p, Pos.to_uint p <> Nil).
  { intros p H. apply (f_equal Pos.of_uint) in H. rewrite DecimalPos.Unsigned.of_to in H. discriminate H. }
  destruct z as [|p|p]; [reflexivity| |].
  - rewrite NilZero.isi; [cbn [option_map]; f_equal; apply DecimalZ.of_to| |]; cbn; intros H; inversion H.
    now apply (Hnil p).
  - rewrite NilZero.isi; [cbn [option_map]; f_equal; apply DecimalZ.of_to| |]; cbn; intros H; inversion H.
    now apply (Hnil p).
Qed.
Print Assumptions C13_int.
Eval vm_compute in (render_int (-1200), render_int 0, render_int 18446744073709551616).

"""Pilot for C15 (purity half): list mutation sites in code reachable from any `rebuild` method
(name-based call graph over the package) and classify the receiver's root."""
import ast, sys, os, collections
ROOT = sys.argv[1] if len(sys.argv) > 1 else '/repo/nix_manipulator'
MUTATORS = {'append','extend','insert','pop','remove','sort','clear','update','setdefault','add','discard','popitem','reverse','__setitem__'}
FRESH_CALLS = {'model_copy','copy','deepcopy','replace','list','dict','set','tuple','sorted','reversed'}
funcs = {}          # qualified name -> (file, node)
byname = collections.defaultdict(list)
for dp, dn, fn in os.walk(ROOT):
    for f in fn:
        if not f.endswith('.py'): continue
        p = os.path.join(dp, f); tree = ast.parse(open(p).read())
        def visit(node, prefix):
            for ch in ast.iter_child_nodes(node):
                if isinstance(ch, (ast.FunctionDef, ast.AsyncFunctionDef)):
                    q = prefix + ch.name; funcs[(p, q)] = ch; byname[ch.name].append((p, q)); visit(ch, q + '.')
                elif isinstance(ch, ast.ClassDef): visit(ch, prefix + ch.name + '.')
                else: visit(ch, prefix)
        visit(tree, '')
def callees(node):
    out = set()
    for n in ast.walk(node):
        if isinstance(n, ast.Call):
            f = n.func
            if isinstance(f, ast.Name): out.add(f.id)
            elif isinstance(f, ast.Attribute): out.add(f.attr)
    return out
work = [k for k in funcs if k[1].split('.')[-1] in ('rebuild', 'rebuild_scoped', '__str__')]
import json
RAN = {tuple(x) for x in json.load(open('ran.json'))} if os.path.exists('ran.json') else set()
reach = set(work)
while work:
    k = work.pop()
    for name in callees(funcs[k]):
        for k2 in byname.get(name, []):
            if k2 not in reach: reach.add(k2); work.append(k2)
def root_of(e):
    while isinstance(e, (ast.Attribute, ast.Subscript)): e = e.value
    return e.id if isinstance(e, ast.Name) else type(e).__name__
def fresh_locals(fn):
    fresh = set()
    for n in ast.walk(fn):
        if isinstance(n, (ast.Assign, ast.AnnAssign)):
            tg = n.targets if isinstance(n, ast.Assign) else [n.target]
            v = n.value
            ok = isinstance(v, (ast.List, ast.Dict, ast.Set, ast.ListComp, ast.DictComp, ast.SetComp, ast.Constant, ast.JoinedStr, ast.Tuple)) or \
                 (isinstance(v, ast.Call) and ((isinstance(v.func, ast.Name) and (v.func.id in FRESH_CALLS or v.func.id[:1].isupper())) or
                                               (isinstance(v.func, ast.Attribute) and v.func.attr in FRESH_CALLS)))
            for t in tg:
                if isinstance(t, ast.Name) and ok: fresh.add(t.id)
    return fresh
rows = []
for k in sorted(reach):
    fn = funcs[k]; fresh = fresh_locals(fn)
    params = {a.arg for a in fn.args.args + fn.args.kwonlyargs}
    for n in ast.walk(fn):
        site = None
        if isinstance(n, (ast.Assign, ast.AugAssign, ast.AnnAssign)):
            tg = n.targets if isinstance(n, ast.Assign) else [n.target]
            for t in tg:
                if isinstance(t, (ast.Attribute, ast.Subscript)): site = ('store', t)
        elif isinstance(n, ast.Delete):
            for t in n.targets:
                if isinstance(t, (ast.Attribute, ast.Subscript)): site = ('del', t)
        elif isinstance(n, ast.Call) and isinstance(n.func, ast.Attribute) and n.func.attr in MUTATORS:
            site = (n.func.attr, n.func.value)
        if site:
            kind, recv = site; r = root_of(recv)
            direct_local = isinstance(recv, ast.Name)            # mutating a local container itself
            cls = ('fresh-local' if r in fresh and r not in params else
                   'param/self' if r in params else 'other-local')
            rows.append((os.path.relpath(k[0], ROOT), k[1], n.lineno, kind, ast.unparse(recv)[:40], cls, direct_local))
dyn = {(os.path.relpath(k[0], ROOT), k[1].replace('.', '.<locals>.') if False else k[1]) for k in reach}
def norm(q): return q.replace('.<locals>', '')
ran_n = {(f, norm(q)) for f, q in RAN if '<genexpr>' not in q}
static_n = {(os.path.relpath(k[0], ROOT), k[1]) for k in reach}
print('functions in package:', len(funcs), ' statically reachable (calls only):', len(reach), ' executed under rebuild:', len(ran_n), ' executed but not statically reachable:', sorted(ran_n - static_n))
c = collections.Counter((r[5], r[6]) for r in rows); print('sites:', len(rows), dict(c))
for r in rows:
    if r[5] != 'fresh-local': print('  %-28s %-45s L%-4d %-8s %-40s %s%s' % (r[0], r[1], r[2], r[3], r[4], r[5], '' if r[6] else ' (through attribute/subscript)'))

"""Slot matrix (deterministic enumeration; labelled test, never a proof): every construct x every gap between two
adjacent tokens of that construct x every trivia kind x three nesting contexts.  Each cell is parsed and rebuilt by the
implementation and judged by the oracle of the requested property, stated over the tree-sitter token stream:
  C01  output parses (modulo the trailing formals comma) and has the same code tokens (integers modulo leading zeros)
  C03  same comments, same order, same side of every non-delimiter token, same wording modulo padding/indentation
  C06  (cells whose comment sits alone on a line / at the end of a line, and pure whitespace cells) output is a fixed point
  C18  spacing normal form of the output
usage: slot_matrix.py PROP  -> one JSON line {cells, failing: [[construct, slot, kind, context, detail]], ...}"""
import json, re, sys
from nixread import ts
from nix_manipulator import parse
prop = sys.argv[1]
from render_oracles import *
from matrix_cells import *
cells, failing, judged = 0, [], 0
if prop == 'C02':
    # canonical family: every construct text (written in RFC-0166 layout), atom and wrapper sequence, in every context,
    # with a final newline: the rebuilt text must be the input, byte for byte
    # not in RFC layout as written (the body of `assert c;` belongs on its own line; a `let` that is a binding value
    # starts on its own line — the implementation's own output there is finding F-32 of C18), or not one token for Nix
    NOT_CANON = {('inherit_from_multi_1line', None),      # a multi-line inherit source with `inherit (` on the first line is not the formatter's layout (the implementation moves `(` to its own line)
                 ('let_empty', None), ('let_empty_set', None), ('assert', None), ('assert_list', None), ('assert_set', None), ('let', 'bindval'), ('let_set', 'bindval'), ('let_list', 'bindval'), ('inherit_in_let', 'bindval'), ('let_let', 'bindval'), ('let_let_let', 'bindval')}
    NOT_CANON_ATOMS = {'00', '007', '1e3', 'a or b', '[]', '{}'}
    NOT_CANON_CELLS = lambda a, ctx: (a == '-1' and ctx in ('callarg', 'callarg2', 'import_arg')) or (a.startswith("''") and '\n' in a and ctx == 'formal_default')     # `f -1` is a subtraction; a multi-line default makes the formals multi-line
    for cname, expr in CONSTRUCTS.items():
        for ctx, wrap in CONTEXTS.items():
            if ctx == 'lead_ws' or (ctx == 'listitem' and cname in NOT_LIST_ITEMS): continue      # a canonical file does not begin with whitespace
            if (cname, None) in NOT_CANON or (cname, 'bindval' if ctx == 'utf8_lead' else ctx) in NOT_CANON or (expr.startswith('let\n') and ctx in ('bindval', 'utf8_lead')): continue      # utf8_lead is a binding-value position too
            p = wrap(expr) + '\n'; cells += 1; judged += 1
            try: r = parse(p).rebuild()
            except Exception as e: failing.append([cname, '-', 'canonical', ctx, 'parse/rebuild raises %s on valid input' % type(e).__name__, p, '']); continue
            if r != p: failing.append([cname, '-', 'canonical', ctx, 'canonical source not reproduced byte for byte', p, r])
    for name, doc in CANON_DOCS.items():
        p = doc + '\n'; cells += 1; judged += 1
        try: r = parse(p).rebuild()
        except Exception as e: failing.append(['doc', name, 'canonical', 'top', 'parse/rebuild raises %s on valid input' % type(e).__name__, p, '']); continue
        if r != p: failing.append(['doc', name, 'canonical', 'top', 'canonical source not reproduced byte for byte', p, r])
    for site, p, lp in iter_cells():
        if site[0] != 'atom' or site[3] == 'lead_ws' or site[1] in NOT_CANON_ATOMS or NOT_CANON_CELLS(site[1], site[3]): continue
        cells += 1; judged += 1
        try: r = parse(p).rebuild()
        except Exception as e: continue
        if r != p: failing.append(site + ['canonical source not reproduced byte for byte', p, r])
    print(json.dumps({'cells': cells, 'judged': judged, 'failing': failing})); sys.exit(0)
for site, p, lp in iter_cells():
    cells += 1; cname, slotname, kname, ctx = site
    try: r = parse(p).rebuild()
    except Exception as e:
        if prop == 'C01': judged += 1; failing.append(site + ['parse/rebuild raises %s on valid input' % type(e).__name__, p, ''])
        continue
    if prop == 'C03' and (kname in WS_KINDS or cname in ('nest', 'atom')): continue
    if prop == 'C06' and not (kname in WS_KINDS or kname in LINE_LEVEL or cname in ('nest', 'atom')): continue
    judged += 1
    v = judge(prop, p, r, lambda t: parse(t).rebuild())
    if v: failing.append(site + [v, p, r])
# two comments at once: reported only when each of the two comments alone passes (otherwise the single cell already speaks for it)
single_bad = {tuple(f[:4]) for f in failing}
pair_ctx = ('top', 'bindval') if len(sys.argv) > 2 and sys.argv[2] == 'thorough' else ('top',)
pairs = 0
for site, p, lp, (s1, s2) in iter_pair_cells(pair_ctx):
    if tuple(s1) in single_bad or tuple(s2) in single_bad: continue
    cells += 1; pairs += 1
    try: r = parse(p).rebuild()
    except Exception as e:
        if prop == 'C01': judged += 1; failing.append(site + ['parse/rebuild raises %s on valid input' % type(e).__name__, p, ''])
        continue
    judged += 1
    v = judge(prop, p, r, lambda t: parse(t).rebuild())
    if v: failing.append(site + [v, p, r])
print(json.dumps({'cells': cells, 'judged': judged, 'pair_cells': pairs, 'failing': failing}))

(* Proof spike, part 5: instances of the sequence theorem for lists and for sets (quirk Q1). *)
From Coq Require Import List Ascii String Bool Arith Lia.
Import ListNotations.
From F0 Require Import F0s Specs P1 P2 P3g.
Open Scope char_scope.

(* ---------- list instance ---------- *)
Lemma T_a0 ind A0 : T (a0_triv A0) ind = a0_text A0.
Proof.
  destruct A0 as [r0|]; [|reflexivity]. cbn [a0_triv a0_text]. rewrite T_inline by reflexivity.
  cbn [format_trivia]. unfold trim_trailing. cbn [rev app is_layout negb andb ends_nl nl_prefix].
  rewrite app_nil_r. reflexivity.
Qed.
Definition Q1list (_ : option str) (_ : list (str * str)) : bool := false.
Lemma T_end ind A0 P cg W : A0_ok A0 -> P_ok P -> ends_nl W = false ->
  T (a0_triv A0 ++ pend_triv P ++ Etriv cg) ind ++ closing_sep (W ++ T (a0_triv A0 ++ pend_triv P ++ Etriv cg) ind)
  = a0_text A0 ++ pend_text ind P ++ LF :: (if Q1list A0 P then [] else blank cg).
Proof. apply end_tail. Qed.

(* ---------- binding trailing function ---------- *)
Definition tr2 (tr : str) : str :=
  let tr1 := match tr with c :: _ => if c =c LF then tr else LF :: tr | [] => [LF] end in
  if ends_nl tr1 then removelast tr1 else tr1.
Definition TB (x : list triv) (indent : nat) : str :=
  match x with
  | Linebreak :: rest => tr2 (format_trivia rest indent)
  | _ => T x indent
  end.
Lemma ends_nl_cons c x : x <> [] -> ends_nl (c :: x) = ends_nl x.
Proof. intros Hx. change (c :: x) with ([c] ++ x). now apply ends_nl_app. Qed.
Lemma tr2_spec F y0 F' : F = y0 :: F' -> (y0 =c LF) = false -> ends_nl F = true -> tr2 F = LF :: removelast F.
Proof.
  intros -> Hy He. unfold tr2. rewrite Hy. rewrite ends_nl_cons by discriminate. rewrite He. reflexivity.
Qed.
Definition Q1set (A0 : option str) (P : list (str * str)) : bool :=
  match A0, P with
  | None, (g1, _) :: _ => has_nl g1 && negb (has_empty_line g1)
  | _, _ => false
  end.

Lemma TB_a0 ind A0 : TB (a0_triv A0) ind = a0_text A0.
Proof. destruct A0 as [r0|]; [|reflexivity]. cbn [a0_triv TB]. apply (T_a0 ind (Some r0)). Qed.

Lemma comment_rebuild_first c i : exists ch rest, comment_rebuild c i = ch :: rest /\ ch <> LF.
Proof.
  unfold comment_rebuild. destruct (ck c).
  - destruct (if cinline c then 0 else i) as [|n]; cbn [sp repeat app].
    + unfold comment_str. destruct (cshebang c); [eexists; eexists; split; [reflexivity|discriminate]|].
      destruct (ctxt c); [eexists; eexists; split; [reflexivity|discriminate]|].
      destruct (cspace c); eexists; eexists; (split; [reflexivity|discriminate]).
    + eexists; eexists; split; [reflexivity|discriminate].
  - destruct (if cinline c then 0 else i) as [|n]; cbn [sp repeat app s list_ascii_of_string]; eexists; eexists; (split; [reflexivity|discriminate]).
  - destruct (if cinline c then 0 else i) as [|n]; cbn [sp repeat app s list_ascii_of_string]; eexists; eexists; (split; [reflexivity|discriminate]).
Qed.

Lemma pend_format_last ind P : P <> [] ->
  exists Y, format_trivia (pend_triv P) ind = Y ++ [LF] /\ LF :: Y = pend_text ind P.
Proof.
  intros HP. destruct (last_or_nil P) as [->|[P' [[g r] ->]]]; [congruence|].
  exists (format_trivia (pend_triv P') ind ++ blank g ++ spec_comment r ind). split.
  - apply pend_format_snoc.
  - pose proof (pend_shift ind (P' ++ [(g, r)]) []) as Hs. rewrite pend_format_snoc in Hs.
    rewrite !app_nil_r in Hs.
    change (LF :: (format_trivia (pend_triv P') ind ++ blank g ++ spec_comment r ind) ++ [LF])
      with ((LF :: format_trivia (pend_triv P') ind ++ blank g ++ spec_comment r ind) ++ [LF]) in Hs.
    apply app_inv_tail in Hs. exact Hs.
Qed.

Lemma TB_end ind A0 P cg W : A0_ok A0 -> P_ok P -> ends_nl W = false ->
  TB (a0_triv A0 ++ pend_triv P ++ Etriv cg) ind ++ closing_sep (W ++ TB (a0_triv A0 ++ pend_triv P ++ Etriv cg) ind)
  = a0_text A0 ++ pend_text ind P ++ LF :: (if Q1set A0 P then [] else blank cg).
Proof.
  intros HA HP HW.
  destruct A0 as [r0|].
  { cbn [a0_triv app TB Q1set]. apply (end_tail ind (Some r0) P cg W HA HP HW). }
  destruct P as [|[g1 r1] P'].
  { cbn [Q1set]. replace (TB (a0_triv None ++ pend_triv [] ++ Etriv cg) ind) with (T (a0_triv None ++ pend_triv [] ++ Etriv cg) ind).
    - apply (end_tail ind None [] cg W HA HP HW).
    - cbn [a0_triv pend_triv flat_map app]. unfold Etriv. destruct (has_empty_line cg); reflexivity. }
  cbn [Q1set].
  destruct (has_empty_line g1) eqn:Ehel.
  { rewrite andb_false_r.
    replace (TB (a0_triv None ++ pend_triv ((g1, r1) :: P') ++ Etriv cg) ind) with (T (a0_triv None ++ pend_triv ((g1, r1) :: P') ++ Etriv cg) ind).
    - apply (end_tail ind None ((g1, r1) :: P') cg W HA HP HW).
    - cbn [a0_triv pend_triv flat_map app]. unfold gap_trivia. rewrite Ehel. reflexivity. }
  destruct (has_nl g1) eqn:Enl.
  2:{ cbn [andb].
      replace (TB (a0_triv None ++ pend_triv ((g1, r1) :: P') ++ Etriv cg) ind) with (T (a0_triv None ++ pend_triv ((g1, r1) :: P') ++ Etriv cg) ind).
      - apply (end_tail ind None ((g1, r1) :: P') cg W HA HP HW).
      - cbn [a0_triv pend_triv flat_map app]. unfold gap_trivia. rewrite Ehel, Enl. reflexivity. }
  (* the Linebreak-first branch of Binding.rebuild: quirk Q1 *)
  cbn [andb negb a0_triv a0_text app].
  set (Pn := (g1, r1) :: P').
  assert (HPn : Pn <> []) by discriminate.
  destruct (pend_format_last ind Pn HPn) as [Y [HY1 HY2]].
  assert (Hshape : pend_triv Pn ++ Etriv cg = Linebreak :: (TC (comment_from_cst r1) :: pend_triv P' ++ Etriv cg)).
  { unfold Pn. cbn [pend_triv flat_map]. unfold gap_trivia. rewrite Ehel, Enl. reflexivity. }
  assert (Hfmt : format_trivia (TC (comment_from_cst r1) :: pend_triv P' ++ Etriv cg) ind
                 = format_trivia (pend_triv Pn) ind ++ format_trivia (Etriv cg) ind).
  { rewrite <- format_trivia_app. rewrite Hshape. reflexivity. }
  rewrite Hshape. cbn [TB]. rewrite Hfmt, HY1.
  destruct (comment_rebuild_first (comment_from_cst r1) ind) as [ch [rs [Hc1 Hc2]]].
  assert (HYhd : exists y0 Y', Y ++ [LF] = y0 :: Y' /\ (y0 =c LF) = false).
  { unfold Pn in HY1. cbn [pend_triv flat_map] in HY1. unfold gap_trivia in HY1. rewrite Ehel, Enl in HY1.
    cbn [app format_trivia] in HY1. rewrite Hc1 in HY1. cbn [app] in HY1. rewrite <- HY1.
    eexists; eexists; split; [reflexivity|]. destruct (Ascii.eqb_spec ch LF); [contradiction|reflexivity]. }
  destruct HYhd as [y0 [Y' [HYe Hy0]]].
  unfold Etriv. destruct (has_empty_line cg) eqn:Ecg; cbn [format_trivia].
  - (* blank line before the closer: dropped *)
    assert (E1 : (Y ++ [LF]) ++ [LF] = y0 :: (Y' ++ [LF])) by (rewrite HYe; reflexivity).
    rewrite (tr2_spec _ y0 (Y' ++ [LF]) E1 Hy0) by apply ends_nl_snoc.
    rewrite removelast_snoc.
    change (LF :: Y ++ [LF]) with ((LF :: Y) ++ [LF]). rewrite HY2.
    unfold closing_sep. rewrite (app_assoc W), ends_nl_snoc. change (LF =c LF) with true. cbn iota.
    rewrite app_nil_r. reflexivity.
  - rewrite app_nil_r.
    rewrite (tr2_spec _ y0 Y' HYe Hy0) by apply ends_nl_snoc.
    rewrite removelast_snoc. rewrite HY2.
    unfold closing_sep. rewrite (pend_text_ends ind W Pn HP HW). reflexivity.
Qed.
Print Assumptions TB_end.

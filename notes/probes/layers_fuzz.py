"""Design spike: let-layer addressing oracle (C09) across wrapper shapes."""
import sys, random, collections, copy
sys.path.insert(0,'/repo')
from nix_manipulator import parse
from nix_manipulator.parser import parse_to_ast
from nix_manipulator.cli.manipulations import set_value, remove_value
R=random.Random(int(sys.argv[1])); N=int(sys.argv[2])
NAMES=['a','b','c']
def gen_layers(n):
    return [ {k:str(R.randrange(100)) for k in R.sample(NAMES, R.randrange(1,3))} for _ in range(n)]
def let_text(layers, body):
    t=body
    for L in reversed(layers):
        t='let\n'+''.join('  %s = %s;\n'%(k,v) for k,v in L.items())+'in\n'+t
    return t
SHAPES={
 'bare':   lambda lets: lets('{\n  x = 1;\n}'),
 'lambda': lambda lets: '{ pkgs }:\n'+lets('{\n  x = 1;\n}'),
 'lambda_id': lambda lets: 'pkgs:\n'+lets('{\n  x = 1;\n}'),
 'call':   lambda lets: lets('f {\n  x = 1;\n}'),
 'lambda_call': lambda lets: '{ stdenv }:\n'+lets('stdenv.mkDerivation {\n  x = 1;\n}'),
 'with':   lambda lets: lets('with p;\n{\n  x = 1;\n}'),
 'assert': lambda lets: lets('assert c;\n{\n  x = 1;\n}'),
 'inner_call': lambda lets: 'f ('+lets('{\n  x = 1;\n}')+')',
}
def read_chain(text):
    """decode consecutive let layers (outermost first) found on the path from root to the attrset"""
    root=parse_to_ast(text)
    if root.has_error: return None
    layers=[]
    def walk(n):
        if n.type=='let_expression':
            L={}
            for c in n.children:
                if c.type=='binding_set':
                    for b in c.children:
                        if b.type=='binding': L[b.child_by_field_name('attrpath').text.decode()]=' '.join(b.child_by_field_name('expression').text.decode().split())
            layers.append(L)
            return walk(n.child_by_field_name('body'))
        if n.type in ('attrset_expression','rec_attrset_expression'): return True
        for c in n.children:
            if c.type in ('comment',): continue
            if c.is_named and walk(c): return True
        return False
    walk(root)
    return layers
st=collections.Counter(); shown=collections.Counter()
def report(kind,*xs):
    st[kind]+=1
    if shown[kind]<3: shown[kind]+=1; print('=====',kind); [print('  ',repr(x)) for x in xs]
for i in range(N):
    n=R.randrange(0,4); layers=gen_layers(n); shape=R.choice(list(SHAPES))
    text=SHAPES[shape](lambda body: let_text(layers, body))+'\n'
    if parse_to_ast(text).has_error: st['gen-invalid:'+shape]+=1; continue
    depth=R.randrange(1,4); name=R.choice(NAMES+['z']); op=R.choice(['set','rm'])
    sel='@'*depth+name
    # reference model
    exp=copy.deepcopy(layers); err=None
    if op=='set':
        if depth>len(exp):
            if depth==1 and not exp: exp=[{name:'77'}]
            else: err='missing-layer'
        else: exp[len(exp)-depth][name]='77'
    else:
        if depth>len(exp): err='missing-layer'
        elif name not in exp[len(exp)-depth]: err='missing-key'
        else:
            del exp[len(exp)-depth][name]
            if not exp[len(exp)-depth]: del exp[len(exp)-depth]
    try:
        out = set_value(parse(text), sel, '77') if op=='set' else remove_value(parse(text), sel)
        got_err=None
    except (KeyError,ValueError) as e: got_err=type(e).__name__; out=None
    except Exception as e: report('EXC-other:'+type(e).__name__+':'+shape, text, sel, op, str(e)); continue
    if err:
        if got_err: st['refused-ok']+=1
        else: report('accepted-but-should-refuse:'+err+':'+shape, text, sel, op, out)
        continue
    if got_err: report('refused-unexpectedly:'+shape, text, sel, op); continue
    chain=read_chain(out)
    if chain is None: report('OUTPUT-INVALID:'+shape, text, sel, op, out); continue
    if chain!=exp: report('WRONG-LAYERS:'+shape, text, sel, op, out, exp, chain); continue
    st['ok:'+shape]+=1
print(dict(st))

(* Design spike for C17: imports resolve relative to the importing file, whatever the cwd. *)
From Coq Require Import List Ascii String Bool Arith Lia.
Import ListNotations.
Notation str := (list ascii).

(* ---- pathlib.PurePosixPath: parts are normalised at construction ('.' and '' dropped, '..' kept) ---- *)
Inductive part := Up | Name (n : str).
Record path := { absolute : bool; parts : list part }.
Definition parent (p : path) : path := {| absolute := absolute p; parts := removelast (parts p) |}.
Definition join (a b : path) : path :=            (* a / b *)
  if absolute b then b else {| absolute := absolute a; parts := parts a ++ parts b |}.
(* NixPath.resolved_path: literal relative to the directory of the file that contains it *)
Definition resolved_path (source_path lit : path) : path :=
  if absolute lit then lit else join (parent source_path) lit.

(* ---- the file system: a directory tree without symlinks; lookup walks physically ---- *)
Section FS.
  Variable dir : Type.
  Variable root : dir.
  Variable up : dir -> dir.                              (* parent directory ('..' at the root stays) *)
  Variable child : dir -> str -> option dir.             (* existing sub-directory *)
  Variable file : dir -> str -> option str.              (* existing regular file: its content *)

  Definition step (d : option dir) (p : part) : option dir :=
    match d with
    | None => None
    | Some d' => match p with Up => Some (up d') | Name n => child d' n end
    end.
  Definition walk (d : dir) (ps : list part) : option dir := fold_left step ps (Some d).
  Definition start (cwd : dir) (p : path) : dir := if absolute p then root else cwd.
  (* open(p) from working directory cwd: walk to the directory, then look the last name up *)
  Definition locate_dir (cwd : dir) (p : path) : option dir := walk (start cwd p) (removelast (parts p)).
  Definition open_ (cwd : dir) (p : path) : option (dir * str) :=
    match locate_dir cwd p, last (parts p) Up with
    | Some d, Name n => match file d n with Some _ => Some (d, n) | None => None end
    | _, _ => None
    end.

  Lemma walk_app d xs ys : fold_left step ys (walk d xs) = walk d (xs ++ ys).
  Proof. unfold walk. now rewrite fold_left_app. Qed.
  Lemma last_app_ne {A} (xs ys : list A) (d : A) : ys <> [] -> last (xs ++ ys) d = last ys d.
  Proof.
    intros Hy. induction xs as [|x xs IH]; [reflexivity|]. cbn [app].
    destruct (xs ++ ys) as [|a l] eqn:E.
    - apply app_eq_nil in E. destruct E; contradiction.
    - exact IH.
  Qed.
  Lemma step_none ps : fold_left step ps None = None.
  Proof. induction ps; [reflexivity|exact IHps]. Qed.

  (* the directory of the importing file, as the OS sees it *)
  Definition dir_of (cwd : dir) (sp : path) : option dir := locate_dir cwd sp.

  (* KEY: a relative literal is looked up from the directory that contains the importing file,
     for every working directory and every spelling of the importing file's path *)
  Theorem C17_relative cwd sp lit d :
    absolute lit = false -> dir_of cwd sp = Some d ->
    locate_dir cwd (resolved_path sp lit) = walk d (removelast (parts lit)) /\
    last (parts (resolved_path sp lit)) Up = last (parts lit) Up \/ parts lit = [].
  Proof.
    intros Hrel Hd. destruct (parts lit) as [|l0 ls] eqn:El; [right; reflexivity|left].
    unfold resolved_path, join. rewrite Hrel. cbn [absolute parts].
    unfold locate_dir, start. cbn [absolute parts parent]. rewrite El.
    assert (Hne : l0 :: ls <> []) by discriminate.
    rewrite removelast_app by exact Hne. split.
    - rewrite <- walk_app. unfold dir_of, locate_dir, start in Hd. rewrite Hd. reflexivity.
    - rewrite last_app_ne by exact Hne. reflexivity.
  Qed.

  (* two (cwd, spelling) pairs that denote the same directory give the same import target *)
  Corollary C17_cwd_independent cwd1 sp1 cwd2 sp2 lit d :
    absolute lit = false -> parts lit <> [] ->
    dir_of cwd1 sp1 = Some d -> dir_of cwd2 sp2 = Some d ->
    open_ cwd1 (resolved_path sp1 lit) = open_ cwd2 (resolved_path sp2 lit).
  Proof.
    intros Hrel Hne H1 H2.
    destruct (C17_relative cwd1 sp1 lit d Hrel H1) as [[Ha Hb]|E]; [|contradiction].
    destruct (C17_relative cwd2 sp2 lit d Hrel H2) as [[Hc Hd]|E]; [|contradiction].
    unfold open_. rewrite Ha, Hb, Hc, Hd. reflexivity.
  Qed.

  (* an absolute literal does not depend on anything *)
  Theorem C17_absolute cwd1 sp1 cwd2 sp2 lit :
    absolute lit = true -> open_ cwd1 (resolved_path sp1 lit) = open_ cwd2 (resolved_path sp2 lit).
  Proof. intros H. unfold resolved_path. rewrite H. unfold open_, locate_dir, start. rewrite H. reflexivity. Qed.
End FS.
Arguments walk_app {dir} up child d xs ys.
Print Assumptions C17_cwd_independent.
Print Assumptions C17_absolute.

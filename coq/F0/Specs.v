(* Design spike: the formatter SPEC for F0 in Gallina (text of canon_gaps), to be proved equal to
   roundtrip. Written over the concrete syntax only: no before/after lists, no string surgery. *)
From Coq Require Import List Ascii String Bool Arith Lia.
Import ListNotations.
From F0 Require Import F0s.
Open Scope char_scope.

Definition spec_comment (raw : str) (indent : nat) : str := comment_rebuild (comment_from_cst raw) indent.
Definition spec_comment_inline (raw : str) : str := comment_rebuild (mk_inline (comment_from_cst raw)) 0.
Definition blank (g : str) : str := if has_empty_line g then [LF] else [].

(* the gap right after the last item, when at least one comment follows it *)
Fixpoint gap_after_last_item (content : list (str * cnode)) (cur : option str) (armed : bool) : option str :=
  match content with
  | [] => cur
  | (g, c) :: rest =>
      if is_cmt c then gap_after_last_item rest (if armed then Some g else cur) false
      else gap_after_last_item rest None true
  end.
Definition last_is_cmt (content : list (str * cnode)) : bool :=
  match rev content with (_, c) :: _ => is_cmt c | [] => false end.


Fixpoint spec (c : cnode) (indent : nat) : str :=
  match c with
  | CAtom isint t => if isint then strip_zeros t else t
  | CCmt raw => spec_comment raw indent
  | CBind name _ g2 v _ =>
      if has_nl g2 then
        let vi := indent_from_gap g2 in
        name ++ s " =" ++ LF :: blank g2 ++ sp vi ++ spec v vi ++ [";"]
      else name ++ s " = " ++ spec v indent ++ [";"]
  | CSet r _ body cg =>
      let prefix := if r then s "rec " else [] in
      match body with
      | [] => prefix ++ (if has_empty_line cg then "{" :: LF :: LF :: sp indent ++ ["}"] else s "{ }")
      | _ =>
        if negb (has_nl (ctext c)) then
          prefix ++ s "{ " ++
            join [" "] ((fix go (l : list (str * cnode)) : list str :=
                           match l with [] => [] | (_, n) :: t => if is_cmt n then go t else spec n (indent + 2) :: go t end) body)
            ++ s " }"
        else
          let lines :=
            (fix go (l : list (str * cnode)) (prev : option cnode) (seen_item : bool) : str :=
               match l with
               | [] => []
               | (g, n) :: rest =>
                   if is_cmt n then
                     let inline_ok := match prev with
                                      | Some p => is_bind p && negb (has_nl g) && seen_item
                                      | None => false end in
                     (if inline_ok then " " :: spec_comment_inline (craw n)
                      else LF :: blank g ++ spec_comment (craw n) (indent + 2))
                     ++ go rest (Some n) seen_item
                   else LF :: blank g ++ sp (indent + 2) ++ spec n (indent + 2) ++ go rest (Some n) true
               end) body None false in
          let q1 := last_is_cmt body &&
                    match gap_after_last_item body None false with
                    | Some g1 => has_nl g1 && negb (has_empty_line g1) | None => false end in
          prefix ++ "{" :: lines ++ LF :: (if q1 then [] else blank cg) ++ sp indent ++ ["}"]
      end
  | CList body cg =>
      match body with
      | [] => if has_empty_line cg then "[" :: LF :: LF :: sp indent ++ ["]"] else s "[ ]"
      | _ =>
        if negb (has_nl (ctext c)) then
          s "[ " ++
            join [" "] ((fix go (l : list (str * cnode)) : list str :=
                           match l with [] => [] | (_, n) :: t => if is_cmt n then go t else spec n indent :: go t end) body)
            ++ s " ]"
        else
          let lines :=
            (fix go (l : list (str * cnode)) (prev : option cnode) (seen_item : bool) : str :=
               match l with
               | [] => []
               | (g, n) :: rest =>
                   if is_cmt n then
                     let inline_ok := match prev with
                                      | Some p => negb (has_nl g) && seen_item
                                      | None => false end in
                     (if inline_ok then " " :: spec_comment_inline (craw n)
                      else LF :: blank g ++ spec_comment (craw n) (indent + 2))
                     ++ go rest (Some n) seen_item
                   else LF :: blank g ++ sp (indent + 2) ++ spec n (indent + 2) ++ go rest (Some n) true
               end) body None false in
          "[" :: lines ++ LF :: blank cg ++ sp indent ++ ["]"]
      end
  end.

Definition spec_file (f : cfile) : str :=
  let body :=
    (fix go (l : list (str * cnode)) (prev : option cnode) (seen_expr : bool) : str :=
       match l with
       | [] => []
       | (g, n) :: rest =>
           let txt := match n with CCmt raw => spec_comment raw 0 | _ => spec n 0 end in
           (match prev with
            | None => txt
            | Some _ =>
                if is_cmt n && negb (has_nl g) && seen_expr
                then " " :: (match n with CCmt raw => spec_comment_inline raw | _ => txt end)
                else LF :: blank g ++ txt
            end) ++ go rest (Some n) (seen_expr || negb (is_cmt n))
       end) (f_children f) None false in
  body ++ (if has_empty_line (f_tail f) then [LF; LF] else if has_nl (f_tail f) then [LF] else []).

"""C07 correspondence + oracle: texts obtained by damaging valid programs (token deleted / duplicated / inserted,
truncation at every byte of small files, random non-Nix text) with arbitrary surrounding whitespace.  For every text
that tree-sitter flags, the gate model (Small.Gate) is compared inside Coq with the implementation: pass-through text,
contains_error, refusal class of set/rm (plain, nested, scoped paths) and that the document text is unchanged; the same
damaged texts are used as the VALUE of a set on a valid document (value gate).  The property is also stated directly.
usage: errors_corr.py SEED N OUTDIR PREFIX"""
import json, os, random, sys
from common import write_shards
seed, N, outdir, prefix = int(sys.argv[1]), int(sys.argv[2]), sys.argv[3], sys.argv[4]
from gen_docs import DocGen, PkgGen
from nix_manipulator import parse
from nix_manipulator.parser import parse_to_ast
from nix_manipulator.cli.manipulations import set_value, remove_value
R = random.Random(seed)
def q(s): return '(list_ascii_of_string "%s")' % s.replace('"', '""')
def leaves(n, out):
    if n.child_count == 0 or n.type in ('string_expression', 'indented_string_expression', 'comment'):
        if n.end_byte > n.start_byte: out.append(n)
        return
    for c in n.children: leaves(c, out)
SMALL = ['{ a = 1; }', '{\n  a = 1;\n  b = [ 1 2 ];\n}\n', 'let\n  v = 1;\nin\n{\n  a = v;\n}\n', '{ pkgs }:\n{\n  a = pkgs.x;\n}\n', 'x: x + 1', '[ 1 2 ]', 'with p; { a = 1; }', 'if a then b else c', '"s${x}"', "''\n  a\n''"]
PAD = ['', '', '\n', '\n\n', '  ', '\t', ' \n ', '\n\n\n', '\r\n', ' \r\n\r\n', '\r']
INS = ['{', '}', ';', '=', '(', ')', '[', ']', 'in', 'let', '"', "''", '${', ':', ',', '@', '?', '..', '=;']
G1 = DocGen(R); G2 = PkgGen(R)
def damaged():
    k = R.random()
    base = R.choice(SMALL) if k < 0.4 else (G1.doc() if k < 0.7 else G2.doc())
    b = base.encode(); ls = []; leaves(parse_to_ast(base), ls)
    how = R.choice(['delete', 'dup', 'insert', 'truncate', 'random'])
    if how == 'delete' and ls: n = R.choice(ls); t = b[:n.start_byte] + b[n.end_byte:]
    elif how == 'dup' and ls: n = R.choice(ls); t = b[:n.end_byte] + b' ' + n.text + b[n.end_byte:]
    elif how == 'insert' and ls: n = R.choice(ls); t = b[:n.start_byte] + R.choice(INS).encode() + b' ' + b[n.start_byte:]
    elif how == 'truncate': t = b[:R.randrange(0, len(b))]
    else: t = ''.join(R.choice('{}[]();=.:,@?"\'$ \nabc019#/*-+<>!&|') for _ in range(R.randrange(1, 30))).encode(); how = 'random'
    try: s = t.decode()
    except UnicodeDecodeError: return None, how
    if R.random() < 0.1: s = s.replace('\n', '\r\n')            # CRLF line ends
    return R.choice(PAD) + s + R.choice(PAD), how
PATHS = ['a', 'a.b', 'zz', '@x', '@@x', '@v', '"q"', 'b']
rows, vrows, viol, stats, samples = [], [], [], {}, []
def cls(f):
    try: f(); return 'ok'
    except KeyError: return 'KeyError'
    except ValueError: return 'ValueError'
    except Exception as e: return type(e).__name__
# truncation at every byte of the small files (exhaustive part)
texts = []
for base in SMALL[:6]:
    for k in range(len(base)): texts.append((base[:k], 'truncate-every-byte'))
# one punctuation token inserted at / deleted from every token boundary of small programs with formals, lists, calls
# (exhaustive part, third round of seeds: stray commas in formals, missing `;` `}` `]` `)`)
PUNCT_BASES = ['{ a, b }: a', '{ a, b ? 1, ... }: a', '{ a, ... }@args: a', '{ pname, version }: { name = pname; }', 'f: { a }: [ a ]', '{ a = 1; b = [ 1 2 ]; }', 'f (g x) { y = 1; }']
for base in PUNCT_BASES:
    ls = []; leaves(parse_to_ast(base), ls); b = base.encode()
    for n in ls:
        for tok in (',', ';', ':', '}', ')', ']', '=', '@', '?', '...'):
            texts.append(((b[:n.start_byte] + tok.encode() + b' ' + b[n.start_byte:]).decode(), 'punct-insert'))
        if n.type in (',', ';', ':', '}', ')', ']', '{', '(', '[', '=', '@', '?', 'ellipses', '...'):
            texts.append(((b[:n.start_byte] + b[n.end_byte:]).decode(), 'punct-delete'))
# an unusual character inserted at every token boundary (seventh round: a reader that drops or normalises a character before tree-sitter
# sees it hides the error): BOM / zero-width / no-break spaces, form feed, vertical tab, NUL, ESC, DEL, line and paragraph separators
for base in ['{ a = 1; b = 2; }', '{ pkgs }:\n{\n  a = 1;\n  b = [ 1 2 ];\n}\n', 'let a = 1; in { a = a; }']:
    ls = []; leaves(parse_to_ast(base), ls); b = base.encode()
    for n in ls:
        for chx in ('\ufeff', '\u00a0', '\u200b', '\x0c', '\x0b', '\x00', '\x1b', '\x7f', '\u2028', '\u2029', '\u0085'):
            if n.start_byte > 0: texts.append(((b[:n.start_byte] + chx.encode() + b[n.start_byte:]).decode(), 'exotic-insert'))
NFIX = len(texts)
while len(texts) < NFIX + N:
    t, how = damaged()
    if t is not None: texts.append((t, how))
VALID_DOC = '{\n  a = 1;\n  b = 2;\n}\n'
import tree_sitter_nix as _tsn
from tree_sitter import Language as _L, Parser as _P
_IND = _P(_L(_tsn.language()))          # tree-sitter's own verdict, not the library's wrapper around it
for t, how in texts:
    err = _IND.parse(t.encode()).root_node.has_error
    stats[how + ('/error' if err else '/valid')] = stats.get(how + ('/error' if err else '/valid'), 0) + 1
    # ---- the text as VALUE of a set on a valid document ----
    root = _IND.parse(t.encode()).root_node; nexpr = len([c for c in root.children if c.type != 'comment'])
    d = parse(VALID_DOC); vc = cls(lambda: set_value(d, 'a', t)); after = d.rebuild()
    if (err or nexpr != 1):
        if vc not in ('ValueError', 'KeyError'): viol.append({'what': 'a VALUE that is not exactly one well-formed expression is not refused (%s)' % vc, 'value': t})
        elif after != VALID_DOC: viol.append({'what': 'a refused VALUE changed the document', 'value': t, 'after': after})
        if t.isascii() and '\r' not in t: vrows.append('(%s, %s, %d, %s, %s)' % (q(t), 'true' if err else 'false', nexpr, 'true' if vc == 'ValueError' else 'false', 'true' if after == VALID_DOC else 'false'))
    if not err: continue
    # ---- the text as the document ----
    src = parse(t); rb = src.rebuild(); ce = bool(src.contains_error)
    path = R.choice(PATHS)
    sc = cls(lambda: set_value(src, path, '1')); after_set = src.rebuild()
    rc = cls(lambda: remove_value(src, path)); after_rm = src.rebuild()
    case = {'text': t, 'damage': how, 'path': path}
    # the file entry point must pass the same bytes through (parse_file reads the file as text)
    if len(rows) % 4 == 0 and '\r' not in t:
        import tempfile
        from nix_manipulator.parser import parse_file
        with tempfile.NamedTemporaryFile('w', suffix='.nix', delete=False, encoding='utf-8', newline='') as fh: fh.write(t); fpath = fh.name
        try:
            fsrc = parse_file(fpath); frb = fsrc.rebuild()
            if frb != t: viol.append(dict(case, what='parse_file: erroneous file is not passed through byte for byte', got=frb))
            elif not fsrc.contains_error: viol.append(dict(case, what='parse_file: contains_error is false on a file tree-sitter flags'))
        except Exception as ex: viol.append(dict(case, what='parse_file raises %s on an erroneous file' % type(ex).__name__))
        finally: os.unlink(fpath)
    if rb != t: viol.append(dict(case, what='erroneous input is not passed through byte for byte', got=rb))
    elif not ce: viol.append(dict(case, what='contains_error is false on a text tree-sitter flags'))
    elif sc == 'ok' or rc == 'ok': viol.append(dict(case, what='an edit of an erroneous source was accepted (set: %s, rm: %s)' % (sc, rc), after=after_set))
    elif sc not in ('KeyError', 'ValueError') or rc not in ('KeyError', 'ValueError'): viol.append(dict(case, what='edit of an erroneous source raises %s / %s' % (sc, rc)))
    elif after_set != t or after_rm != t: viol.append(dict(case, what='a refused edit changed the erroneous text'))
    if t.isascii() and '\r' not in t:
        rows.append('(%s, %s, %s, %s, %s, %s, %s)' % (q(t), q(path), q(rb), 'true' if ce else 'false', 'true' if sc == 'ValueError' else 'false', 'true' if rc == 'ValueError' else 'false', q(after_rm)))
    if len(samples) < 3: samples.append(case)
HDR = ('From Coq Require Import List Ascii String Bool Arith. Import ListNotations. Open Scope string_scope.\nFrom Small Require Import Gate.\n'
       'Definition eqs (a b : list ascii) : bool := if list_eq_dec ascii_dec a b then true else false.\n'
       'Definition isval {A} (r : res A) : bool := match r with Err ValErr => true | _ => false end.\n'
       'Definition T : Type := (list ascii * list ascii * list ascii * bool * bool * bool * list ascii)%type.\n'
       'Definition G (src : list ascii) := (parse (list ascii) (fun _ => true) (fun x => x) src).\n')
OK = ("Definition ok (t : T) : bool := let '(src, path, rb, ce, sv, rv, after) := t in\n"
      "  let d := G src in\n"
      "  let s1 := set_value (list ascii) (fun _ => true) (fun x => x) (fun x => x) (fun t _ _ => Ok t) (fun _ => 1) d path (list_ascii_of_string \"1\") in\n"
      "  let s2 := remove_value (list ascii) (fun x => x) (fun t _ => Ok t) (fst s1) path in\n"
      "  eqs (rebuild (list ascii) (fun x => x) d) rb && Bool.eqb (contains_error (list ascii) d) ce && Bool.eqb (isval (snd s1)) sv && Bool.eqb (isval (snd s2)) rv\n"
      "  && eqs (rebuild (list ascii) (fun x => x) (fst s2)) after.\n")
write_shards(outdir, prefix, HDR, 'T', OK, rows, 8)
HDR2 = HDR.replace('Definition T : Type := (list ascii * list ascii * list ascii * bool * bool * bool * list ascii)%type.', 'Definition T : Type := (list ascii * bool * nat * bool * bool)%type.')
OK2 = ("Definition ok (t : T) : bool := let '(v, verr, n, refused, unchanged) := t in\n"
       "  let d := @Tree (list ascii) (list_ascii_of_string \"doc\") in\n"
       "  let r := set_value (list ascii) (fun _ => verr) (fun x => x) (fun x => x) (fun t _ _ => Ok t) (fun _ => n) d (list_ascii_of_string \"a\") v in\n"
       "  Bool.eqb (isval (snd r)) refused && Bool.eqb (eqs (rebuild (list ascii) (fun x => x) (fst r)) (list_ascii_of_string \"doc\")) unchanged.\n")
write_shards(outdir, prefix + 'V', HDR2, 'T', OK2, vrows, 8)
json.dump({'stats': {'texts': len(texts), 'erroneous_documents_compared': len(rows), 'bad_values_compared': len(vrows), 'distribution': stats}, 'keys': sorted(stats),
           'distinct_count': len({t for t, _ in texts}), 'rule': 'valid programs damaged by token deletion / duplication / insertion, truncation (every byte of six small programs, random elsewhere), random punctuation text; random whitespace padding; distinct = distinct texts',
           'samples': samples, 'violations': viol[:5], 'n_violations': len(viol)}, open(os.path.join(outdir, prefix + '_summary.json'), 'w'))
print(len(rows), len(vrows), len(viol))

(* C16 over the GENERATED arms of cli/main.py, for every library behaviour, document, path and value. *)
From Coq Require Import List String Bool. Import ListNotations. Open Scope string_scope.
From Cli Require Import CliIR.
From Dyn Require Import CliGen.

Section C16.
  Variable doc : Type.
  Variables (lib_parse : string -> doc) (lib_set : doc -> string -> string -> option string)
            (lib_rm : doc -> string -> option string) (lib_err : doc -> bool) (lib_rebuild : doc -> string).
  Notation main' := (main doc lib_parse lib_set lib_rm lib_err lib_rebuild arms).

  (* set: the library's result followed by one newline and status 0; a raising call prints nothing on stdout, status 1 *)
  Theorem C16_set i :
    main' "set" i =
    match lib_set (lib_parse (stdin_text i)) (a_npath i) (a_value i) with
    | Some r => Done (r ++ nl) false 0
    | None => Done "" true 1 end.
  Proof. vm_compute. (destruct (lib_set _ _ _); reflexivity). Qed.
  Theorem C16_rm i :
    main' "rm" i =
    match lib_rm (lib_parse (stdin_text i)) (a_npath i) with
    | Some r => Done (r ++ nl) false 0
    | None => Done "" true 1 end.
  Proof. vm_compute. (destruct (lib_rm _ _); reflexivity). Qed.
  (* test: OK/0 exactly when the text has no syntax error and is reproduced byte for byte *)
  Theorem C16_test i :
    let d := lib_parse (stdin_text i) in
    main' "test" i =
    if negb (lib_err d) && str_eq (stdin_text i) (lib_rebuild d) then Done ("OK" ++ nl) false 0 else Done ("Fail" ++ nl) false 1.
  Proof.
    destruct i as [txt np vl]. cbv zeta. cbn [stdin_text].
    destruct (lib_err (lib_parse txt)) eqn:E1; [|destruct (str_eq txt (lib_rebuild (lib_parse txt))) eqn:E2];
      cbv -[str_eq]; rewrite ?E1; cbv -[str_eq]; rewrite ?E2; reflexivity.
  Qed.
  Theorem C16_unknown i cmd : cmd <> "shell" -> cmd <> "set" -> cmd <> "rm" -> cmd <> "test" ->
    main' cmd i = Done "" true 2.
  Proof.
    intros H1 H2 H3 H4. unfold main, arm_of, arms. cbn [find fst].
    (repeat match goal with |- context [String.eqb ?c cmd] =>
      let E := fresh in destruct (String.eqb c cmd) eqn:E; [apply String.eqb_eq in E; congruence|] end).
    reflexivity.
  Qed.
End C16.
Print Assumptions C16_set. Print Assumptions C16_test. Print Assumptions C16_unknown.

(* C07, CLI half: a text with a syntax error is reported as Fail with status 1, whatever rebuild returns *)
Section C07.
  Variable doc : Type.
  Variables (lib_parse : string -> doc) (lib_set : doc -> string -> string -> option string)
            (lib_rm : doc -> string -> option string) (lib_err : doc -> bool) (lib_rebuild : doc -> string).
  Corollary C07_test_fails i : lib_err (lib_parse (stdin_text i)) = true ->
    main doc lib_parse lib_set lib_rm lib_err lib_rebuild arms "test" i = Done ("Fail" ++ nl) false 1.
  Proof. intros H. rewrite C16_test. cbv zeta. rewrite H. reflexivity. Qed.
End C07.
Print Assumptions C07_test_fails.

"""C20 cost correspondence: number of rebuild invocations (counted by wrapping every class's rebuild from outside)
for each nesting family x leaf kind x depth 1..D, compared inside Coq with Small.CostFam.cost.
usage: cost_corr.py SEED DEPTH OUTDIR PREFIX"""
import json, os, sys
sys.path.insert(0, os.path.join(os.path.dirname(os.path.abspath(__file__)), '..', 'oracles'))
from common import write_shards
from costlib import count_calls
from costfam import FAM, LEAVES
seed, D, outdir, prefix = int(sys.argv[1]), int(sys.argv[2]), sys.argv[3], sys.argv[4]
rows, samples, stats = [], [], {}
for leafname, leaf in LEAVES.items():
    c0 = count_calls(leaf)
    for k, w in FAM.items():
        s = leaf
        for n in range(1, D + 1):
            s = w(s)
            try: c = count_calls(s)
            except Exception as e: c = 0
            rows.append('("%s", %s, %d, %d, %d)' % (k, 'true' if leafname == 'mlset' else 'false', c0, n, c))
            stats[k] = max(stats.get(k, 0), c)
        if len(samples) < 3: samples.append({'family': k, 'leaf': leafname, 'depth': D, 'text': s[:120], 'rebuild_calls': c})
HDR = 'From Coq Require Import List Arith Bool String. Import ListNotations. Open Scope string_scope.\nFrom Small Require Import CostFam.\n'
OK = "Definition ok (t : string * bool * nat * nat * nat) : bool := let '(name, ml, c0, n, c) := t in match lookup name ml with Some f => Nat.eqb (cost f c0 n) c | None => false end.\n"
write_shards(outdir, prefix, HDR, 'string * bool * nat * nat * nat', OK, rows, 4)
json.dump({'stats': {'families': len(FAM), 'leaf_kinds': len(LEAVES), 'max_depth': D, 'max_calls_per_family': stats}, 'keys': sorted('%s/%s/%d' % (k, l, n) for k in FAM for l in LEAVES for n in range(1, D + 1)),
           'rule': 'every family x {atom leaf, multi-line set leaf} x depth 1..%d; exhaustive over this finite table' % D, 'samples': samples},
          open(os.path.join(outdir, prefix + '_summary.json'), 'w'))
print(len(rows))

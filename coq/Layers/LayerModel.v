(* C09: the let layers around the edited attribute set as a state machine.
   State: the list of layers INNERMOST FIRST (index 0 = the innermost `let … in`), each layer an association list of
   binding names and value texts in textual order.  A selector with d leading @ addresses index d-1 (the code keeps the
   list outermost first and uses layers[-d]; Dyn.ScopeSel.pick_innermost_first relates the two views).
   Operations mirror cli/manipulations.py: set_value / remove_value with a scope selector —
   create-on-demand of ONE innermost layer when none exists, refusal of deeper selectors on missing layers,
   pruning of a layer that loses its last binding.  Tied to the code by the layers correspondence (let chain decoded
   from the emitted text after every operation). *)
From Coq Require Import List Ascii Bool Arith Lia.
Import ListNotations.
Notation str := (list ascii).

Fixpoint streq (a b : str) : bool :=
  match a, b with [], [] => true | x :: a', y :: b' => Ascii.eqb x y && streq a' b' | _, _ => false end.
Definition layer := list (str * str).
Inductive err := KeyErr | ValErr.
Inductive res (A : Type) := Ok (a : A) | Err (e : err).
Arguments Ok {A} a. Arguments Err {A} e.

Fixpoint has_key (L : layer) (k : str) : bool := match L with [] => false | (n, _) :: t => streq n k || has_key t k end.
Fixpoint upsert (L : layer) (k v : str) : layer :=
  match L with
  | [] => [(k, v)]
  | (n, w) :: t => if streq n k then (n, v) :: t else (n, w) :: upsert t k v
  end.
Fixpoint remove_key (L : layer) (k : str) : layer :=
  match L with [] => [] | (n, w) :: t => if streq n k then t else (n, w) :: remove_key t k end.
Fixpoint lookup (L : layer) (k : str) : option str :=
  match L with [] => None | (n, w) :: t => if streq n k then Some w else lookup t k end.

Fixpoint update_nth {A} (i : nat) (f : A -> A) (l : list A) : list A :=
  match l, i with [], _ => [] | x :: t, O => f x :: t | x :: t, S j => x :: update_nth j f t end.
Fixpoint delete_nth {A} (i : nat) (l : list A) : list A :=
  match l, i with [], _ => [] | _ :: t, O => t | x :: t, S j => x :: delete_nth j t end.

(* d = number of leading @ (>= 1) *)
Definition sset (ls : list layer) (d : nat) (k v : str) : res (list layer) :=
  match d with
  | O => Err ValErr
  | S i =>
      if length ls <? d then
        match ls, i with [], O => Ok [[(k, v)]] | _, _ => Err ValErr end        (* only `@name` on a document without layers creates one *)
      else Ok (update_nth i (fun L => upsert L k v) ls)
  end.
Definition srm (ls : list layer) (d : nat) (k : str) : res (list layer) :=
  match d with
  | O => Err ValErr
  | S i =>
      match nth_error ls i with
      | None => Err ValErr                                                       (* requested scope layer does not exist *)
      | Some L =>
          if has_key L k then
            match remove_key L k with
            | [] => Ok (delete_nth i ls)                                         (* the wrapper goes with its last binding *)
            | L' => Ok (update_nth i (fun _ => L') ls)
            end
          else Err KeyErr
      end
  end.
Definition sget (ls : list layer) (d : nat) (k : str) : option str :=
  match d with O => None | S i => match nth_error ls i with Some L => lookup L k | None => None end end.

(* ---------- list facts ---------- *)
Lemma nth_update_same {A} (f : A -> A) : forall l i x, nth_error l i = Some x -> nth_error (update_nth i f l) i = Some (f x).
Proof. induction l as [|y l IH]; intros [|i] x H; try discriminate; cbn in *; [now inversion H|now apply IH]. Qed.
Lemma nth_update_other {A} (f : A -> A) : forall l i j, i <> j -> nth_error (update_nth i f l) j = nth_error l j.
Proof. induction l as [|y l IH]; intros [|i] [|j] H; cbn; try reflexivity; try congruence. apply IH. congruence. Qed.
Lemma length_update {A} (f : A -> A) : forall l i, length (update_nth i f l) = length l.
Proof. induction l as [|y l IH]; intros [|i]; cbn; auto. Qed.
Lemma nth_delete_before {A} : forall (l : list A) i j, j < i -> nth_error (delete_nth i l) j = nth_error l j.
Proof. induction l as [|y l IH]; intros [|i] [|j] H; cbn; try reflexivity; try lia. apply IH. lia. Qed.
Lemma nth_delete_after {A} : forall (l : list A) i j, i <= j -> nth_error (delete_nth i l) j = nth_error l (S j).
Proof. induction l as [|y l IH]; intros [|i] [|j] H; cbn; try reflexivity; try lia; try (destruct j; reflexivity). apply IH. lia. Qed.
Lemma length_delete {A} : forall (l : list A) i, i < length l -> S (length (delete_nth i l)) = length l.
Proof. induction l as [|y l IH]; intros [|i] H; cbn in *; try lia. rewrite IH; lia. Qed.

(* ---------- layer facts ---------- *)
Lemma streq_refl a : streq a a = true.
Proof. induction a as [|x a IH]; [reflexivity|]. cbn. now rewrite Ascii.eqb_refl, IH. Qed.
Lemma streq_eq : forall a b, streq a b = true -> a = b.
Proof.
  induction a as [|x a IH]; destruct b as [|y b]; cbn; try discriminate; [reflexivity|].
  intros H. apply andb_prop in H. destruct H as [H1 H2]. apply Ascii.eqb_eq in H1. subst. f_equal. now apply IH.
Qed.
Lemma lookup_upsert_same L k v : lookup (upsert L k v) k = Some v.
Proof.
  induction L as [|[n w] t IH]; cbn; [now rewrite streq_refl|]. destruct (streq n k) eqn:E; cbn; rewrite E; [reflexivity|exact IH].
Qed.
Lemma lookup_upsert_other L k v k' : streq k' k = false -> lookup (upsert L k v) k' = lookup L k'.
Proof.
  intros Hn. induction L as [|[n w] t IH]; cbn.
  - destruct (streq k k') eqn:E; [apply streq_eq in E; subst; rewrite streq_refl in Hn; discriminate|reflexivity].
  - destruct (streq n k) eqn:E; cbn.
    + apply streq_eq in E. subst n. destruct (streq k k') eqn:E2; [apply streq_eq in E2; subst; rewrite streq_refl in Hn; discriminate|reflexivity].
    + destruct (streq n k'); [reflexivity|exact IH].
Qed.
Lemma upsert_nonempty L k v : upsert L k v <> [].
Proof. destruct L as [|[n w] t]; cbn; [discriminate|]. destruct (streq n k); discriminate. Qed.
Lemma lookup_remove_same L k : (forall n w, In (n, w) L -> True) -> has_key (remove_key L k) k = true -> has_key L k = true.
Proof.
  intros _. induction L as [|[n w] t IH]; cbn; [discriminate|]. destruct (streq n k) eqn:E; cbn; [reflexivity|]. rewrite E. exact IH.
Qed.
Lemma lookup_remove_other L k k' : streq k' k = false -> lookup (remove_key L k) k' = lookup L k'.
Proof.
  intros Hn. induction L as [|[n w] t IH]; cbn; [reflexivity|]. destruct (streq n k) eqn:E; cbn.
  - apply streq_eq in E. subst n. destruct (streq k k') eqn:E2; [apply streq_eq in E2; subst; rewrite streq_refl in Hn; discriminate|reflexivity].
  - destruct (streq n k'); [reflexivity|exact IH].
Qed.

(* ---------- C09 ---------- *)
(* `@`^d name writes the d-th layer counted from the innermost, and only it *)
Theorem sset_index ls d k v : 1 <= d <= length ls ->
  exists ls', sset ls d k v = Ok ls' /\ length ls' = length ls /\
    sget ls' d k = Some v /\
    (forall k', streq k' k = false -> sget ls' d k' = sget ls d k') /\
    (forall d' k', d' <> d -> sget ls' d' k' = sget ls d' k').
Proof.
  intros [H1 H2]. destruct d as [|i]; [lia|]. unfold sset.
  assert (E : (length ls <? S i) = false) by (apply Nat.ltb_ge; lia). rewrite E.
  exists (update_nth i (fun L => upsert L k v) ls). split; [reflexivity|]. split; [apply length_update|].
  destruct (nth_error ls i) as [L|] eqn:EL; [|apply nth_error_None in EL; lia].
  split; [|split].
  - cbn [sget]. rewrite (nth_update_same _ ls i L EL). apply lookup_upsert_same.
  - intros k' Hk. cbn [sget]. rewrite (nth_update_same _ ls i L EL), EL. now apply lookup_upsert_other.
  - intros [|j] k' Hd; [reflexivity|]. cbn [sget]. rewrite nth_update_other by congruence. reflexivity.
Qed.
(* one innermost layer is created when none exists *)
Theorem sset_create k v : sset [] 1 k v = Ok [[(k, v)]].
Proof. reflexivity. Qed.
(* deeper selectors fail when the layer does not exist (the state is a value: nothing changes) *)
Theorem sset_missing ls d k v : length ls < d -> ~ (ls = [] /\ d = 1) -> sset ls d k v = Err ValErr.
Proof.
  intros H Hn. destruct d as [|i]; [reflexivity|]. unfold sset.
  assert (E : (length ls <? S i) = true) by (apply Nat.ltb_lt; lia). rewrite E.
  destruct ls as [|L t]; [|reflexivity]. destruct i; [exfalso; apply Hn; split; reflexivity|reflexivity].
Qed.
Theorem srm_missing_layer ls d k : length ls < d -> srm ls d k = Err ValErr.
Proof.
  intros H. destruct d as [|i]; [reflexivity|]. unfold srm.
  assert (E : nth_error ls i = None) by (apply nth_error_None; lia). now rewrite E.
Qed.
Theorem srm_missing_key ls d k L : 1 <= d -> nth_error ls (d - 1) = Some L -> has_key L k = false -> srm ls d k = Err KeyErr.
Proof. intros H HL Hk. destruct d as [|i]; [lia|]. unfold srm. replace (S i - 1) with i in HL by lia. now rewrite HL, Hk. Qed.
(* rm of the last binding of a layer removes that wrapper and only it; the other layers keep their place and content *)
Theorem srm_prune ls d k L : 1 <= d -> nth_error ls (d - 1) = Some L -> has_key L k = true -> remove_key L k = [] ->
  srm ls d k = Ok (delete_nth (d - 1) ls) /\ S (length (delete_nth (d - 1) ls)) = length ls /\
  (forall j, j < d - 1 -> nth_error (delete_nth (d - 1) ls) j = nth_error ls j) /\
  (forall j, d - 1 <= j -> nth_error (delete_nth (d - 1) ls) j = nth_error ls (S j)).
Proof.
  intros H HL Hk Hr. destruct d as [|i]; [lia|]. replace (S i - 1) with i in * by lia.
  split; [unfold srm; now rewrite HL, Hk, Hr|]. split; [apply length_delete; apply nth_error_Some; congruence|].
  split; [intros j Hj; now apply nth_delete_before|intros j Hj; now apply nth_delete_after].
Qed.
(* rm of one of several bindings keeps the layer; every other layer and every other name is untouched *)
Theorem srm_keep ls d k L : 1 <= d -> nth_error ls (d - 1) = Some L -> has_key L k = true -> remove_key L k <> [] ->
  exists ls', srm ls d k = Ok ls' /\ length ls' = length ls /\
    (forall k', streq k' k = false -> sget ls' d k' = sget ls d k') /\
    (forall d' k', d' <> d -> sget ls' d' k' = sget ls d' k').
Proof.
  intros H HL Hk Hr. destruct d as [|i]; [lia|]. replace (S i - 1) with i in * by lia.
  destruct (remove_key L k) as [|b t] eqn:E; [congruence|].
  exists (update_nth i (fun _ => b :: t) ls). split; [unfold srm; now rewrite HL, Hk, E|]. split; [apply length_update|]. split.
  - intros k' Hk'. cbn [sget]. rewrite (nth_update_same _ ls i L HL), HL, <- E. now apply lookup_remove_other.
  - intros [|j] k' Hd; [reflexivity|]. cbn [sget]. rewrite nth_update_other by congruence. reflexivity.
Qed.

(* sequences: no operation ever leaves an empty layer behind (empty layers are not wrappers) *)
Inductive sop := OSet (d : nat) (k v : str) | ORm (d : nat) (k : str).
Definition sstep (ls : list layer) (o : sop) : list layer :=
  match (match o with OSet d k v => sset ls d k v | ORm d k => srm ls d k end) with Ok ls' => ls' | Err _ => ls end.
Definition nonempty_layers (ls : list layer) : Prop := Forall (fun L => L <> []) ls.
Lemma Forall_update {A} (P : A -> Prop) (f : A -> A) : forall l i, Forall P l -> (forall x, P x -> P (f x)) -> Forall P (update_nth i f l).
Proof. induction l as [|y l IH]; intros [|i] H Hf; cbn; inversion H; subst; constructor; auto. Qed.
Lemma Forall_delete {A} (P : A -> Prop) : forall l i, Forall P l -> Forall P (delete_nth i l).
Proof. induction l as [|y l IH]; intros [|i] H; cbn; inversion H; subst; try constructor; auto. Qed.
Theorem sstep_nonempty ls o : nonempty_layers ls -> nonempty_layers (sstep ls o).
Proof.
  intros H. unfold sstep. destruct o as [d k v|d k].
  - unfold sset. destruct d as [|i]; [exact H|]. destruct (length ls <? S i).
    + destruct ls as [|L t]; [destruct i; [constructor; [discriminate|constructor]|exact H]|exact H].
    + apply Forall_update; [exact H|]. intros L _. apply upsert_nonempty.
  - unfold srm. destruct d as [|i]; [exact H|]. destruct (nth_error ls i) as [L|]; [|exact H].
    destruct (has_key L k); [|exact H]. destruct (remove_key L k) as [|b t] eqn:E.
    + apply Forall_delete, H.
    + apply Forall_update; [exact H|]. intros _ _. discriminate.
Qed.
Theorem srun_nonempty : forall ops ls, nonempty_layers ls -> nonempty_layers (fold_left sstep ops ls).
Proof. induction ops as [|o ops IH]; intros ls H; [exact H|]. cbn [fold_left]. apply IH, sstep_nonempty, H. Qed.
Print Assumptions sset_index.
Print Assumptions srm_prune.
Print Assumptions srun_nonempty.

"""Resolver-core correspondence (C10): random scope chains built with the library's own constructors (Scope, Binding,
Inherit, Identifier); the real _resolve_identifier is compared inside Coq with R.ResolveCore.resolve_top: which binding
(by identity), which value, which ResolutionError class.   usage: res_corr.py SEED N OUTDIR PREFIX"""
import sys, random, os, json, collections
from common import write_shards
from nix_manipulator.expressions.binding import Binding
from nix_manipulator.expressions.identifier import Identifier, _resolve_identifier
from nix_manipulator.expressions.inherit import Inherit
from nix_manipulator.expressions.scope import Scope
from nix_manipulator.expressions.expression import coerce_expression
from nix_manipulator.exceptions import ResolutionError
R = random.Random(int(sys.argv[1])); N = int(sys.argv[2]); outdir, prefix = sys.argv[3], sys.argv[4]
NAMES = ['a', 'b', 'c', '"a"', '"b"', 'a', 'b', 'c']
def q(t): return '(s "%s")' % t.replace('"', '""')
cases = []
for _ in range(N):
    nsc = R.randrange(1, 5); scopes = []; coq_scopes = []; ids = {}; nid = 0
    for si in range(nsc):
        items = []; citems = []
        for _ in range(R.randrange(1, 5)):
            nid += 1
            if R.random() < 0.3:
                names = R.sample(['a', 'b', 'c'], R.randrange(1, 3))
                ob = Inherit(names=[Identifier(name=n) for n in names]); ids[id(ob)] = nid
                items.append(ob); citems.append('EInh %d [%s]' % (nid, '; '.join(q(n) for n in names)))
            else:
                nm = R.choice(NAMES)
                if R.random() < 0.6:
                    tgt = R.choice(['a', 'b', 'c', 'a', 'b', 'c', 'e']); val = Identifier(name=tgt); cv = 'VId %s' % q(tgt)
                else:
                    val = coerce_expression(1000 + nid); cv = 'VOther %d' % (1000 + nid)
                ob = Binding(name=nm, value=val); ids[id(ob)] = nid
                items.append(ob); citems.append('EBind %d %s (%s)' % (nid, q(nm), cv))
        scopes.append(Scope(items)); coq_scopes.append('[' + '; '.join(citems) + ']')
    name = R.choice(['a', 'b', 'c'])
    try:
        v, b = _resolve_identifier(Identifier(name=name), tuple(scopes))
        exp = 'Found %d %d' % (v.value, ids[id(b)])
    except ResolutionError as e:
        m = str(e)
        exp = 'RErr ' + ('CyclicRef' if m.startswith('Cyclic reference') else 'CyclicInh' if m.startswith('Cyclic inherit') else 'Unbound' if m.startswith('Unbound') else 'OutOfFuel')
    # model takes the chain innermost first
    cases.append('(%s, [%s], %s)' % (q(name), '; '.join(reversed(coq_scopes)), exp))
HDR = ('From Coq Require Import List Ascii String Arith Bool. Import ListNotations.\nFrom R Require Import ResolveCore.\nOpen Scope string_scope.\n'
       'Definition s (x : string) : str := list_ascii_of_string x.\n'
       'Definition same (a b : rres) : bool := match a, b with Found t i, Found t2 i2 => Nat.eqb t t2 && Nat.eqb i i2 | RErr Unbound, RErr Unbound | RErr CyclicRef, RErr CyclicRef | RErr CyclicInh, RErr CyclicInh => true | _, _ => false end.\n')
OK = 'Definition ok (c : str * list (list entry) * rres) : bool := same (resolve_top (fst (fst c)) (snd (fst c))) (snd c).\n'
write_shards(outdir, prefix, HDR, 'str * list (list entry) * rres', OK, cases, 8)
dist = collections.Counter(c.rsplit(', ', 1)[1].split()[0] + (' ' + c.rsplit(', ', 1)[1].split()[1] if c.rsplit(', ', 1)[1].startswith('RErr') else '') for c in cases)
json.dump({'stats': {'outcomes': dict(dist)}, 'keys': sorted(dist), 'distinct_count': len(set(cases)),
           'rule': 'chains of 1-4 scopes with 1-4 entries each (bindings with bare or quoted names whose value is a reference or a literal, inherit clauses), name looked up from the innermost scope',
           'samples': [cases[0][:300]]}, open(os.path.join(outdir, prefix + '_summary.json'), 'w'))
print(len(cases))

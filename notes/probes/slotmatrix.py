"""Pilot of the slot matrix (design exploration; not framework code)."""
import sys, re, collections, json
sys.path.insert(0,'/repo')
from nix_manipulator import parse
from nix_manipulator.parser import parse_to_ast
OPAQUE = ('string_expression','indented_string_expression','comment','path_expression','spath_expression','hpath_expression','uri_expression')
def leaves(n, out, anc):
    if n.type in OPAQUE or n.child_count==0:
        if n.end_byte>n.start_byte: out.append((n, anc))
        return
    for c in n.children: leaves(c, out, anc+[n.type])
def lex(s):
    root = parse_to_ast(s)
    if root.has_error: return None
    out=[]; leaves(root,out,[])
    b = s.encode()
    toks=[]; pos=0
    for n,anc in out:
        toks.append((b[pos:n.start_byte].decode(), n.type, n.text.decode(), anc))
        pos=n.end_byte
    return toks, b[pos:].decode()
def normint(t):
    return re.sub(r'^0+(?=\d)','',t[2]) if t[1]=='integer_expression' else t[2]
def code(toks): return [(t[1], normint(t)) for t in toks if t[1]!='comment']
def normc(text):
    text = re.sub(r'\s+',' ',text).strip()
    return text
def interleave(toks):
    out=[]
    for t in toks:
        out.append(('C',normc(t[2])) if t[1]=='comment' else ('T',normint(t)))
    return out
CONSTRUCTS = {
 'set_multi': "{\n  a = 1;\n  b = x;\n}",
 'set_inline': "{ a = 1; }",
 'rec_set': "rec {\n  a = 1;\n}",
 'attrpath': "{\n  a.b.c = 1;\n}",
 'binding_nl': "{\n  a =\n    x;\n}",
 'list_multi': "[\n  1\n  x\n]",
 'list_inline': "[ 1 x ]",
 'let': "let\n  a = 1;\nin\na",
 'lambda_id': "x: x",
 'lambda_formals': "{ a, b ? 1, ... }: a",
 'lambda_formals_multi': "{\n  a,\n  b ? 1,\n  ...\n}:\na",
 'lambda_at': "{ a }@args: a",
 'lambda_at_pre': "args@{ a }: a",
 'call': "f x y",
 'call_set': "f {\n  a = 1;\n}",
 'with': "with p; x",
 'assert': "assert c; x",
 'if': "if c then t else e",
 'select': "a.b.c",
 'select_or': "a.b or d",
 'has_attr': "a ? b",
 'not': "!x",
 'neg': "-x",
 'binary': "a + b",
 'chain': "a\n++ b\n++ c",
 'update': "a // b",
 'paren': "(x)",
 'inherit': "{\n  inherit a b;\n}",
 'inherit_from': "{\n  inherit (p) a b;\n}",
 'string': "\"s${x}t\"",
}
KINDS = {
 'sp': ' ', 'sp2': '   ', 'tab': '\t', 'nl': '\n', 'nl_ind': '\n    ', 'blank': '\n\n', 'blank3': '\n\n\n  ',
 'eol_c': ' # c\n', 'own_c': '\n# c\n', 'own_c_blank': '\n\n# c\n\n', 'inl_b': ' /* c */ ', 'own_b': '\n/* c */\n',
 'ml_b': '\n/* a\n   b */\n', 'doc_b': '\n/** d */\n', 'hash_nospace': '\n#c\n',
}
WS_KINDS = {'sp','sp2','tab','nl','nl_ind','blank','blank3'}
OWNLINE = {'eol_c','own_c','own_c_blank','own_b','ml_b','doc_b','hash_nospace'}
CONTEXTS = {
 'top': lambda e: e,
 'bindval': lambda e: "{\n  v = " + e.replace("\n","\n  ") + ";\n}",
 'listitem': lambda e: "{\n  l = [\n    (" + e.replace("\n","\n    ") + ")\n  ];\n}" if False else "[\n  " + e.replace("\n","\n  ") + "\n]",
}
def gaps_ok_nf(r):
    lx = lex(r)
    if lx is None: return ['out-unparsable']
    toks, tail = lx
    errs=[]
    for i,(g,ty,tx,anc) in enumerate(toks):
        if '\t' in g: errs.append('tab')
        if re.search(r'[ \t]+\n', g): errs.append('trailing-ws')
        if g.count('\n')>2: errs.append('multi-blank')
        if '\n' not in g and len(g)>1: errs.append('multi-space')
        if i==0 and g!='': errs.append('leading-ws')
        if tx in (';',':') and g!='' and '\n' not in g: errs.append('space-before-%s'%tx)
    return errs
results = collections.defaultdict(list)
cells=0; skipped=0
for cname, expr in CONSTRUCTS.items():
    for ctx, wrap in CONTEXTS.items():
        if ctx=='listitem' and cname in ('call','with','assert','if','lambda_id','lambda_formals','lambda_formals_multi','lambda_at','lambda_at_pre','let','binary','chain','update','has_attr','not','neg','select_or','call_set'):
            continue  # not valid as bare list items
        base = wrap(expr)
        lx = lex(base)
        assert lx is not None, (cname, ctx, base)
        toks, tail = lx
        # locate expr token range within base
        inner = lex(expr)[0]; n_in=len(inner)
        start = next(i for i in range(len(toks)) if [t[2] for t in toks[i:i+n_in]]==[t[2] for t in inner])
        for slot in range(start+1, start+n_in):   # gap before token index `slot` (internal gaps of construct)
            for kname, kval in KINDS.items():
                orig = toks[slot][0]
                if kname in WS_KINDS and orig=='' : 
                    pass
                newg = kval
                parts=[]
                for i,(g,ty,tx,anc) in enumerate(toks):
                    parts.append(newg if i==slot else g); parts.append(tx)
                p = ''.join(parts)+tail
                lp = lex(p)
                if lp is None or code(lp[0])!=code(toks): skipped+=1; continue
                cells+=1
                cell = (cname, f"{toks[slot-1][2]}|{toks[slot][2]}", kname)
                try:
                    r = parse(p).rebuild()
                except Exception as e:
                    results['EXC'].append((cell, ctx, type(e).__name__)); continue
                lr = lex(r)
                if lr is None: results['C01-unparsable'].append((cell,ctx,p,r)); continue
                if code(lr[0])!=code(lp[0]): results['C01-tokens'].append((cell,ctx,p,r))
                if interleave(lr[0])!=interleave(lp[0]): results['C03'].append((cell,ctx,p,r))
                if kname in WS_KINDS or kname in OWNLINE:
                    r2 = parse(r).rebuild()
                    if r2!=r: results['C06'].append((cell,ctx,p,r,r2))
                nf = gaps_ok_nf(r)
                if nf: results['C18'].append((cell,ctx,p,r,nf))
print('cells', cells, 'skipped(invalid perturbation)', skipped)
for k,v in results.items():
    cellset = {c[0] for c in v}
    sites = {(c[0][0],c[0][1]) for c in v}
    print(k, 'failing runs', len(v), 'distinct cells', len(cellset), 'distinct (construct,slot) sites', len(sites))
json.dump({k:[list(map(str,x[:2]))+[x[2] if len(x)>2 else ''] + ([x[3]] if len(x)>3 else []) for x in v] for k,v in results.items()}, open('/tmp/scratch/slot_results.json','w'), indent=0)

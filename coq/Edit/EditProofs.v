(* Proof spike for C08: a refused edit leaves the state exactly as it was. *)
From Coq Require Import List Ascii String Bool Arith Lia.
Import ListNotations.
From E Require Import EditModel.

Definition failed {A} (r : res A) : Prop := match r with Err _ => True | Ok _ => False end.

Lemma set_delitem_atomic s r k : failed (snd (set_delitem s r k)) -> fst (set_delitem s r k) = s.
Proof.
  unfold set_delitem. destruct (get_set s r) as [[[vals ord] m]|]; [|reflexivity].
  destruct (find_by_name s vals k); [intros []|reflexivity].
Qed.

Lemma remove_attrpath_atomic s r segs :
  failed (snd (remove_attrpath_value s r segs)) -> fst (remove_attrpath_value s r segs) = s.
Proof.
  unfold remove_attrpath_value. destruct (walk_stack s r segs false true) as [[stack|]|e]; try reflexivity.
  destruct (last stack (SRoot, 0)) as [parent leaf]. destruct (get_set s parent) as [[[pv pord] pm]|]; [intros []|reflexivity].
Qed.

(* resolve_parent without creation never changes the state *)
Lemma resolve_parent_nocreate : forall prefix s cur, fst (resolve_parent s cur prefix false) = s.
Proof.
  induction prefix as [|seg rest IH]; intros s cur; [reflexivity|]. cbn [resolve_parent].
  destruct (find_by_name s (vals_of s cur) seg); [|reflexivity].
  destruct (is_vset (val_of s n)); [apply IH|reflexivity].
Qed.

Theorem rm_atomic s segs : failed (snd (m_rm s segs)) -> fst (m_rm s segs) = s.
Proof.
  unfold m_rm. destruct (find_leaf s SRoot segs); [apply remove_attrpath_atomic|].
  destruct segs as [|k [|k2 t]]; [reflexivity| |].
  - destruct (find_root s (rvals s) k); [reflexivity|apply set_delitem_atomic].
  - destruct (find_root s (rvals s) k); [apply remove_attrpath_atomic|].
    pose proof (resolve_parent_nocreate (removelast (k :: k2 :: t)) s SRoot) as Hs.
    destruct (resolve_parent s SRoot (removelast (k :: k2 :: t)) false) as [s1 [parent|e]]; cbn [fst] in Hs; subst s1.
    + apply set_delitem_atomic.
    + reflexivity.
Qed.
Print Assumptions rm_atomic.

(* ---------- heap facts ---------- *)
Definition heap_ok (s : st) : Prop := forall k b, In (k, b) (hp s) -> k < nxt s.
Lemma hget_in h i b : hget h i = Some b -> In (i, b) h.
Proof.
  induction h as [|[k b0] t IH]; [discriminate|]. cbn [hget]. destruct (k =? i) eqn:E.
  - intros H. inversion H; subst. apply Nat.eqb_eq in E. subst. left. reflexivity.
  - intros H. right. now apply IH.
Qed.
Lemma hget_hset_same h i b b0 : hget h i = Some b0 -> hget (hset h i b) i = Some b.
Proof.
  induction h as [|[k b1] t IH]; [discriminate|]. cbn [hget hset]. destruct (k =? i) eqn:E.
  - intros _. cbn [hget]. now rewrite E.
  - intros H. cbn [hget]. rewrite E. now apply IH.
Qed.
Lemma hget_hset_other h i j b : i <> j -> hget (hset h i b) j = hget h j.
Proof.
  intros Hn. induction h as [|[k b1] t IH]; [reflexivity|]. cbn [hset]. destruct (k =? i) eqn:E.
  - cbn [hget]. apply Nat.eqb_eq in E. subst k. destruct (i =? j) eqn:E2; [apply Nat.eqb_eq in E2; contradiction|reflexivity].
  - cbn [hget]. destruct (k =? j); [reflexivity|exact IH].
Qed.
Lemma val_of_set_val_other s i j v : i <> j -> val_of (set_val s i v) j = val_of s j.
Proof.
  intros Hn. unfold val_of, set_val. destruct (hget (hp s) i) as [b|]; [|reflexivity].
  cbn [hp with_hp]. now rewrite hget_hset_other.
Qed.
Lemma val_of_set_val_same s i v : hget (hp s) i <> None -> val_of (set_val s i v) i = v.
Proof.
  intros Hn. unfold val_of, set_val. destruct (hget (hp s) i) as [b|] eqn:E; [|congruence].
  cbn [hp with_hp]. rewrite (hget_hset_same _ _ _ _ E). reflexivity.
Qed.
Lemma val_of_alloc_new s b : val_of (fst (alloc s b)) (snd (alloc s b)) = bval b.
Proof. unfold alloc, val_of. cbn [fst snd hp hget]. now rewrite Nat.eqb_refl. Qed.
Lemma alloc_id s b : snd (alloc s b) = nxt s.
Proof. reflexivity. Qed.
Lemma hget_lt s i b : heap_ok s -> hget (hp s) i = Some b -> i < nxt s.
Proof. intros H E. apply (H i b). now apply hget_in. Qed.
Lemma val_vset_exists s i v o m : val_of s i = VSet v o m -> hget (hp s) i <> None.
Proof. unfold val_of. destruct (hget (hp s) i); [discriminate|discriminate]. Qed.

Lemma hset_keys h i b k0 b0 : In (k0, b0) (hset h i b) -> exists b', In (k0, b') h.
Proof.
  induction h as [|[k1 b1] t IH]; intros H0; [destruct H0|]. cbn [hset] in H0.
  destruct (k1 =? i) eqn:E1.
  - destruct H0 as [H0|H0]; [inversion H0; subst; eexists; left; reflexivity|eexists; right; exact H0].
  - destruct H0 as [H0|H0]; [inversion H0; subst; eexists; left; reflexivity|].
    destruct (IH H0) as [b' Hb']. eexists; right; exact Hb'.
Qed.
Lemma heap_ok_alloc s b : heap_ok s -> heap_ok (fst (alloc s b)).
Proof.
  intros H k b0 Hin. unfold alloc in *. cbn [fst hp nxt] in *. destruct Hin as [Hin|Hin].
  - inversion Hin; subst. lia.
  - pose proof (H _ _ Hin). lia.
Qed.
Lemma heap_ok_set_val s i v : heap_ok s -> heap_ok (set_val s i v).
Proof.
  intros H k b0 Hin. unfold set_val in *. destruct (hget (hp s) i) as [b|]; [|exact (H _ _ Hin)].
  cbn [with_hp hp nxt] in *. destruct (hset_keys _ _ _ _ _ Hin) as [b' Hb']. exact (H _ _ Hb').
Qed.

(* sav_loop: from a fresh empty set it always succeeds, at a fresh empty set *)
Lemma sav_loop_fresh : forall mid s cur m, heap_ok s -> val_of s cur = VSet [] [] m ->
  exists s1 c m1, sav_loop s cur mid = (s1, Ok c) /\ heap_ok s1 /\ val_of s1 c = VSet [] [] m1.
Proof.
  induction mid as [|seg rest IH]; intros s cur m Hok Hv.
  - exists s, cur, m. repeat split; assumption.
  - cbn [sav_loop]. rewrite Hv. cbn [find_named].
    pose proof (val_vset_exists _ _ _ _ _ Hv) as Hex.
    destruct (hget (hp s) cur) as [bc|] eqn:Ec; [|congruence].
    pose proof (hget_lt s cur bc Hok Ec) as Hlt.
    set (nbnd := {| bname := seg; bval := VSet [] [] m; bnested := true |}).
    change (alloc s nbnd) with (fst (alloc s nbnd), snd (alloc s nbnd)). cbv beta iota.
    apply (IH (set_val (fst (alloc s nbnd)) cur (VSet [snd (alloc s nbnd)] [] m)) (snd (alloc s nbnd)) m).
    + apply heap_ok_set_val, heap_ok_alloc, Hok.
    + rewrite val_of_set_val_other by (rewrite alloc_id; lia). apply (val_of_alloc_new s nbnd).
Qed.
Print Assumptions sav_loop_fresh.

(* ---------- set: after the first creation no later check can fail ---------- *)
Lemma sav_loop_shape : forall mid s cur, heap_ok s ->
  fst (sav_loop s cur mid) = s \/
  exists c m1, snd (sav_loop s cur mid) = Ok c /\ val_of (fst (sav_loop s cur mid)) c = VSet [] [] m1.
Proof.
  induction mid as [|seg rest IH]; intros s cur Hok; [left; reflexivity|].
  cbn [sav_loop]. destruct (val_of s cur) as [t|cv cord cm] eqn:Hv; [left; reflexivity|].
  destruct (find_named s cv seg (Some true)) as [b|].
  - destruct (is_vset (val_of s b)); [apply IH, Hok|left; reflexivity].
  - destruct (find_named s cv seg (Some false)); [left; reflexivity|].
    right.
    pose proof (val_vset_exists _ _ _ _ _ Hv) as Hex.
    destruct (hget (hp s) cur) as [bc|] eqn:Ec; [|congruence].
    pose proof (hget_lt s cur bc Hok Ec) as Hlt.
    set (nbnd := {| bname := seg; bval := VSet [] [] cm; bnested := true |}).
    change (alloc s nbnd) with (fst (alloc s nbnd), snd (alloc s nbnd)). cbv beta iota.
    set (s2 := set_val (fst (alloc s nbnd)) cur (VSet (cv ++ [snd (alloc s nbnd)]) cord cm)).
    destruct (sav_loop_fresh rest s2 (snd (alloc s nbnd)) cm) as (s1 & c & m1 & E & _ & Hc).
    + apply heap_ok_set_val, heap_ok_alloc, Hok.
    + unfold s2. rewrite val_of_set_val_other by (rewrite alloc_id; lia). apply (val_of_alloc_new s nbnd).
    + exists c, m1. rewrite E. split; [reflexivity|exact Hc].
Qed.

Lemma set_attrpath_atomic s r root segs v : heap_ok s ->
  failed (snd (set_attrpath_value s r root segs v)) -> fst (set_attrpath_value s r root segs v) = s.
Proof.
  intros Hok. unfold set_attrpath_value. destruct (negb (is_vset (val_of s root))); [reflexivity|].
  destruct (sav_loop_shape (removelast (tl segs)) s root Hok) as [Hs|(c & m1 & Hr & Hc)].
  - destruct (sav_loop s root (removelast (tl segs))) as [s1 [cur|e]]; cbn [fst] in Hs; subst s1; [|reflexivity].
    destruct (val_of s cur) as [t|cv cord cm]; [reflexivity|].
    destruct (find_named s cv (last segs []) (Some true)); [reflexivity|].
    destruct (find_named s cv (last segs []) (Some false)); [intros []|].
    change (alloc s {| bname := last segs []; bval := v; bnested := false |})
      with (fst (alloc s {| bname := last segs []; bval := v; bnested := false |}),
            snd (alloc s {| bname := last segs []; bval := v; bnested := false |})). cbv beta iota.
    match goal with |- context [get_set ?S r] => destruct (get_set S r) as [[[rv rord] rm]|] end; intros [].
  - destruct (sav_loop s root (removelast (tl segs))) as [s1 [cur|e]]; cbn [fst snd] in Hr, Hc; [|discriminate].
    inversion Hr; subst cur. rewrite Hc. cbn [find_named].
    change (alloc s1 {| bname := last segs []; bval := v; bnested := false |})
      with (fst (alloc s1 {| bname := last segs []; bval := v; bnested := false |}),
            snd (alloc s1 {| bname := last segs []; bval := v; bnested := false |})). cbv beta iota.
    match goal with |- context [get_set ?S r] => destruct (get_set S r) as [[[rv rord] rm]|] end; intros [].
Qed.

Definition ref_ok (s : st) (r : sref) : Prop := match r with SRoot => True | SOwn o => o < nxt s end.

Lemma val_of_alloc_other s b i : i <> nxt s -> val_of (fst (alloc s b)) i = val_of s i.
Proof.
  intros Hn. unfold alloc, val_of. cbn [fst hp hget].
  destruct (nxt s =? i) eqn:E; [apply Nat.eqb_eq in E; congruence|reflexivity].
Qed.

Lemma append_new_fresh s r key v : heap_ok s -> ref_ok s r ->
  heap_ok (fst (append_new s r key v)) /\ val_of (fst (append_new s r key v)) (snd (append_new s r key v)) = v
  /\ snd (append_new s r key v) < nxt (fst (append_new s r key v)).
Proof.
  intros Hok Hr. unfold append_new.
  set (nbnd := {| bname := key; bval := v; bnested := false |}).
  change (alloc s nbnd) with (fst (alloc s nbnd), snd (alloc s nbnd)). cbv beta iota.
  pose proof (heap_ok_alloc s nbnd Hok) as Hok1.
  pose proof (val_of_alloc_new s nbnd) as Hnew.
  destruct (get_set (fst (alloc s nbnd)) r) as [[[vals ord] m]|] eqn:Eg; cbn [fst snd].
  - destruct r as [|o]; cbn [put_set].
    + split; [|split].
      * intros k b Hin. exact (Hok1 k b Hin).
      * exact Hnew.
      * cbn. lia.
    + cbn [ref_ok] in Hr. split; [apply heap_ok_set_val, Hok1|split].
      * rewrite val_of_set_val_other by (rewrite alloc_id; lia). exact Hnew.
      * unfold set_val. destruct (hget (hp (fst (alloc s nbnd))) o); cbn; lia.
  - split; [exact Hok1|split; [exact Hnew|cbn; lia]].
Qed.

Lemma resolve_parent_fresh : forall rest s nb m, heap_ok s -> nb < nxt s -> val_of s nb = VSet [] [] m ->
  exists s1 p, resolve_parent s (SOwn nb) rest true = (s1, Ok p).
Proof.
  induction rest as [|seg rest IH]; intros s nb m Hok Hlt Hv; [eexists; eexists; reflexivity|].
  cbn [resolve_parent]. unfold vals_of. cbn [get_set]. rewrite Hv. cbn [find_by_name].
  set (nv := VSet [] [] m).
  destruct (append_new_fresh s (SOwn nb) seg nv Hok Hlt) as (Hok1 & Hv1 & Hlt1).
  destruct (append_new s (SOwn nb) seg nv) as [s1 nb1]. cbn [fst snd] in *.
  apply (IH s1 nb1 m Hok1 Hlt1 Hv1).
Qed.

Lemma find_by_name_lt : forall ids s key i, heap_ok s -> find_by_name s ids key = Some i ->
  is_vset (val_of s i) = true -> i < nxt s.
Proof.
  intros ids s key i Hok _ Hvs. unfold val_of in Hvs. destruct (hget (hp s) i) as [b|] eqn:E; [|discriminate].
  exact (hget_lt s i b Hok E).
Qed.

Lemma resolve_parent_atomic : forall prefix s cur, heap_ok s -> ref_ok s cur ->
  failed (snd (resolve_parent s cur prefix true)) -> fst (resolve_parent s cur prefix true) = s.
Proof.
  induction prefix as [|seg rest IH]; intros s cur Hok Hr; [reflexivity|].
  cbn [resolve_parent]. destruct (find_by_name s (vals_of s cur) seg) as [i|] eqn:Ef.
  - destruct (is_vset (val_of s i)) eqn:Ev; [|reflexivity].
    apply IH; [exact Hok|]. cbn [ref_ok]. exact (find_by_name_lt _ _ _ _ Hok Ef Ev).
  - set (m := match get_set s cur with Some (_, _, m) => m | None => true end).
    destruct (append_new_fresh s cur seg (VSet [] [] m) Hok Hr) as (Hok1 & Hv1 & Hlt1).
    destruct (append_new s cur seg (VSet [] [] m)) as [s1 nb1]. cbn [fst snd] in *.
    destruct (resolve_parent_fresh rest s1 nb1 m Hok1 Hlt1 Hv1) as (s2 & p & E). rewrite E. intros [].
Qed.

Theorem set_atomic s segs v : heap_ok s -> failed (snd (m_set s segs v)) -> fst (m_set s segs v) = s.
Proof.
  intros Hok. unfold m_set. destruct (find_leaf s SRoot segs); [intros []|].
  destruct segs as [|k [|k2 t]]; [reflexivity| |].
  - destruct (find_root s (rvals s) k); [reflexivity|intros []].
  - destruct (find_root s (rvals s) k); [apply set_attrpath_atomic, Hok|].
    pose proof (resolve_parent_atomic (removelast (k :: k2 :: t)) s SRoot Hok I) as Hs.
    destruct (resolve_parent s SRoot (removelast (k :: k2 :: t)) true) as [s1 [parent|e]]; cbn [fst snd] in *.
    + intros [].
    + intros _. apply Hs. exact I.
Qed.
Print Assumptions set_atomic.

(* ---------- heap_ok is an invariant of every operation (so set_atomic's hypothesis is met by every reachable state) ---------- *)
Lemma heap_ok_put_set s r v o m : heap_ok s -> heap_ok (put_set s r v o m).
Proof. intros H. destruct r; cbn [put_set]; [exact H|apply heap_ok_set_val, H]. Qed.

Lemma heap_ok_append_new s r k v : heap_ok s -> heap_ok (fst (append_new s r k v)).
Proof.
  intros H. unfold append_new.
  set (nbnd := {| bname := k; bval := v; bnested := false |}).
  change (alloc s nbnd) with (fst (alloc s nbnd), snd (alloc s nbnd)). cbv beta iota.
  destruct (get_set (fst (alloc s nbnd)) r) as [[[vals ord] m]|]; cbn [fst].
  - apply heap_ok_put_set, heap_ok_alloc, H.
  - apply heap_ok_alloc, H.
Qed.
Lemma heap_ok_set_setitem s r k v : heap_ok s -> heap_ok (set_setitem s r k v).
Proof.
  intros H. unfold set_setitem. destruct (find_by_name s (vals_of s r) k);
    [apply heap_ok_set_val, H|apply heap_ok_append_new, H].
Qed.
Lemma heap_ok_sav_loop : forall mid s cur, heap_ok s -> heap_ok (fst (sav_loop s cur mid)).
Proof.
  induction mid as [|seg rest IH]; intros s cur H; [exact H|]. cbn [sav_loop].
  destruct (val_of s cur) as [t|cv cord cm]; [exact H|].
  destruct (find_named s cv seg (Some true)) as [b|].
  - destruct (is_vset (val_of s b)); [apply IH, H|exact H].
  - destruct (find_named s cv seg (Some false)); [exact H|].
    set (nbnd := {| bname := seg; bval := VSet [] [] cm; bnested := true |}).
    change (alloc s nbnd) with (fst (alloc s nbnd), snd (alloc s nbnd)). cbv beta iota.
    apply IH, heap_ok_set_val, heap_ok_alloc, H.
Qed.
Lemma heap_ok_set_attrpath s r root segs v : heap_ok s -> heap_ok (fst (set_attrpath_value s r root segs v)).
Proof.
  intros H. unfold set_attrpath_value. destruct (negb (is_vset (val_of s root))); [exact H|].
  pose proof (heap_ok_sav_loop (removelast (tl segs)) s root H) as H1.
  destruct (sav_loop s root (removelast (tl segs))) as [s1 [cur|e]]; cbn [fst] in *; [|exact H1].
  destruct (val_of s1 cur) as [t|cv cord cm]; [exact H1|].
  destruct (find_named s1 cv (last segs []) (Some true)); [exact H1|].
  destruct (find_named s1 cv (last segs []) (Some false)); [apply heap_ok_set_val, H1|].
  set (nbnd := {| bname := last segs []; bval := v; bnested := false |}).
  change (alloc s1 nbnd) with (fst (alloc s1 nbnd), snd (alloc s1 nbnd)). cbv beta iota.
  match goal with |- context [get_set ?S r] => destruct (get_set S r) as [[[rv rord] rm]|] end; cbn [fst].
  - apply heap_ok_put_set, heap_ok_set_val, heap_ok_alloc, H1.
  - apply heap_ok_set_val, heap_ok_alloc, H1.
Qed.
Lemma heap_ok_resolve_parent : forall prefix s cur c, heap_ok s -> heap_ok (fst (resolve_parent s cur prefix c)).
Proof.
  induction prefix as [|seg rest IH]; intros s cur c H; [exact H|]. cbn [resolve_parent].
  destruct (find_by_name s (vals_of s cur) seg) as [i|].
  - destruct (is_vset (val_of s i)); [apply IH, H|exact H].
  - destruct c; [|exact H].
    set (m := match get_set s cur with Some (_, _, m) => m | None => true end).
    pose proof (heap_ok_append_new s cur seg (VSet [] [] m) H) as H1.
    destruct (append_new s cur seg (VSet [] [] m)) as [s1 nb1]. apply IH, H1.
Qed.
Theorem heap_ok_m_set s segs v : heap_ok s -> heap_ok (fst (m_set s segs v)).
Proof.
  intros H. unfold m_set. destruct (find_leaf s SRoot segs); [apply heap_ok_set_val, H|].
  destruct segs as [|k [|k2 t]]; [exact H| |].
  - destruct (find_root s (rvals s) k); [exact H|apply heap_ok_set_setitem, H].
  - destruct (find_root s (rvals s) k); [apply heap_ok_set_attrpath, H|].
    pose proof (heap_ok_resolve_parent (removelast (k :: k2 :: t)) s SRoot true H) as H1.
    destruct (resolve_parent s SRoot (removelast (k :: k2 :: t)) true) as [s1 [parent|e]]; cbn [fst] in *;
      [apply heap_ok_set_setitem, H1|exact H1].
Qed.
Lemma heap_ok_prune : forall stk s, heap_ok s -> heap_ok (prune s stk).
Proof.
  induction stk as [|[parent b] rest IH]; intros s H; [exact H|]. cbn [prune].
  destruct (val_of s b) as [t|[|x xs] o m]; try exact H.
  destruct (get_set s parent) as [[[pv pord] pm]|]; [apply IH, heap_ok_put_set, H|exact H].
Qed.
Lemma heap_ok_set_delitem s r k : heap_ok s -> heap_ok (fst (set_delitem s r k)).
Proof.
  intros H. unfold set_delitem. destruct (get_set s r) as [[[vals ord] m]|]; [|exact H].
  destruct (find_by_name s vals k); [apply heap_ok_put_set, H|exact H].
Qed.
Lemma heap_ok_remove_attrpath s r segs : heap_ok s -> heap_ok (fst (remove_attrpath_value s r segs)).
Proof.
  intros H. unfold remove_attrpath_value. destruct (walk_stack s r segs false true) as [[stack|]|e]; try exact H.
  destruct (last stack (SRoot, 0)) as [parent leaf]. destruct (get_set s parent) as [[[pv pord] pm]|]; [|exact H].
  cbn [fst]. apply heap_ok_prune.
  match goal with |- context [get_set ?S r] => destruct (get_set S r) as [[[rv rord] rm]|] end;
    repeat apply heap_ok_put_set; exact H.
Qed.
Theorem heap_ok_m_rm s segs : heap_ok s -> heap_ok (fst (m_rm s segs)).
Proof.
  intros H. unfold m_rm. destruct (find_leaf s SRoot segs); [apply heap_ok_remove_attrpath, H|].
  destruct segs as [|k [|k2 t]]; [exact H| |].
  - destruct (find_root s (rvals s) k); [exact H|apply heap_ok_set_delitem, H].
  - destruct (find_root s (rvals s) k); [apply heap_ok_remove_attrpath, H|].
    pose proof (heap_ok_resolve_parent (removelast (k :: k2 :: t)) s SRoot false H) as H1.
    destruct (resolve_parent s SRoot (removelast (k :: k2 :: t)) false) as [s1 [parent|e]]; cbn [fst] in *;
      [apply heap_ok_set_delitem, H1|exact H1].
Qed.

(* an operation script; C08 for every state reachable from a well-formed one *)
Inductive eop := ESet (segs : list str) (v : value) | ERm (segs : list str).
Definition estep (s : st) (o : eop) : st * res unit :=
  match o with ESet segs v => m_set s segs v | ERm segs => m_rm s segs end.
Definition erun (s : st) (ops : list eop) : st := fold_left (fun s o => fst (estep s o)) ops s.
Lemma heap_ok_erun : forall ops s, heap_ok s -> heap_ok (erun s ops).
Proof.
  induction ops as [|o ops IH]; intros s H; [exact H|]. cbn [erun fold_left]. apply IH.
  destruct o; [apply heap_ok_m_set, H|apply heap_ok_m_rm, H].
Qed.
Theorem C08_model s0 ops o : heap_ok s0 ->
  failed (snd (estep (erun s0 ops) o)) -> fst (estep (erun s0 ops) o) = erun s0 ops.
Proof.
  intros H0 Hf. pose proof (heap_ok_erun ops s0 H0) as H.
  destruct o; [apply set_atomic; assumption|apply rm_atomic; assumption].
Qed.
Print Assumptions C08_model.

(* heap_ok is decidable, so the harness can check it on each parsed document, and here is one *)
Definition heap_okb (s : st) : bool := forallb (fun kb => fst kb <? nxt s) (hp s).
Lemma heap_okb_ok s : heap_okb s = true -> heap_ok s.
Proof.
  unfold heap_okb, heap_ok. rewrite forallb_forall. intros H k b Hin. apply (H (k, b)) in Hin. cbn in Hin.
  now apply Nat.ltb_lt.
Qed.
Example nonvacuous :
  match parse_doc (ISet true [([["a"%char]; ["b"%char]], IAtom ["1"%char]); ([["c"%char]], ISet false [])]) with
  | Ok s => heap_okb s = true /\ failed (snd (m_set s [["a"%char]; ["b"%char]; ["x"%char]] (VAt ["2"%char])))
  | Err _ => False end.
Proof. vm_compute. split; [reflexivity|exact I]. Qed.

"""Counter-example search for the edit properties, stated directly against the implementation (labelled test).
usage: edit_search.py PROP SEED N   -> one JSON line: evaluations, distribution, violations, known_hits"""
import json, random, sys
from edit_lib import *
prop, seed, N = sys.argv[1], int(sys.argv[2]), int(sys.argv[3])
R = random.Random(seed * 7919 + sum(map(ord, prop)))
viol, dist, known, samples = [], {}, {}, []
def count(k): dist[k] = dist.get(k, 0) + 1
def bad(what, **case): viol.append(dict(case, what=what))

def gen_op(text, step, scoped_ok):
    paths = existing_paths(text); r = R.random()
    leaf_paths = [p for p in paths]
    if r < 0.08: return (('set', R.choice(BADPATHS), '1') if R.random() < 0.6 else ('rm', R.choice(BADPATHS))), 'badpath'
    if r < 0.12: return ('set', pstr(R.choice(paths)) if paths else 'k', R.choice(BADVALUES)), 'badvalue'
    if scoped_ok and r < 0.30:
        d = R.choice([1, 1, 1, 2, 3]); nm = R.choice(LAYER_NAMES + ['z%d' % step])
        if R.random() < 0.3: nm += '.' + R.choice(['x', 'license', 'k']) + ('.deep' if R.random() < 0.3 else '')
        if R.random() < 0.6: return ('set', '@' * d + nm, R.choice(['51', '{ k = 1; }', '"t"'])), 'scoped'
        return ('rm', '@' * d + nm), 'scoped'
    kind = R.choice(['existing', 'existing', 'fresh', 'fresh_nested', 'deep', 'missing', 'collide'])
    if not paths: kind = 'fresh'
    if R.random() < 0.06:      # a segment spelled like a reserved word, written bare in the path (seventh round): it must be emitted quoted and found again
        kw = R.choice(['with', 'assert', 'in', 'let', 'rec', 'if', 'then', 'else', 'inherit'])
        pre = R.choice(paths)[:-1] if paths and R.random() < 0.5 else ()
        ps = (pstr(pre) + '.' if pre else '') + kw + ('.sub' if R.random() < 0.3 else '')
        return (('set', ps, R.choice(VALUES)) if R.random() < 0.75 else ('rm', ps)), 'keyword'
    if kind == 'collide':            # a missing key that equals the leaf name of an attrpath binding one level down (`a.q` next to `a.p.q = 1`)
        cands = [q for q in paths if len(q) >= 2 and q[:-2] + (q[-1],) not in paths]
        deep = [q for q in cands if len(q) >= 3]
        if deep and R.random() < 0.8: cands = deep          # below the top level the edit reaches AttributeSet.__delitem__ / __setitem__ itself
        if cands: q = R.choice(cands); p = q[:-2] + (q[-1],)
        else: kind = 'missing'
    if kind == 'collide': pass
    elif kind == 'existing': p = R.choice(paths)
    elif kind == 'fresh': p = (R.choice(paths)[:-1] if paths and R.random() < 0.5 else ()) + ('fresh%d' % step,)
    elif kind == 'fresh_nested': p = ('n%d' % step, R.choice(['x', 'y']))
    elif kind == 'deep': p = R.choice(paths) + ('deep%d' % step,)
    else: p = (R.choice(paths)[:-1] if paths else ()) + ('nope%d' % step,)
    if R.random() < 0.65: return ('set', pstr(p), R.choice(VALUES)), kind
    return ('rm', pstr(p)), kind

def parse_path(ps):
    """names of a path text produced by pstr (no escapes other than \\\\ and \\")"""
    out, i, cur, q = [], 0, '', False
    while i < len(ps):
        ch = ps[i]
        if q:
            if ch == '\\': cur += ps[i + 1]; i += 2; continue
            if ch == '"': q = False; i += 1; continue
            cur += ch; i += 1; continue
        if ch == '"': q = True; i += 1; continue
        if ch == '.': out.append(cur); cur = ''; i += 1; continue
        cur += ch; i += 1
    out.append(cur); return tuple(out)

# =================================================================================== C08
DIRECTED_C08 = [     # unconditional (seventh round): a root that is defined both by an explicit set and through an attrpath cannot be overwritten or removed as a whole
    ('{ a = { x = 1; }; a.b = 2; }\n', ('set', 'a', '5')), ('{ a = { x = 1; }; a.b = 2; }\n', ('rm', 'a')), ('{ a = { x = 1; }; a.b = 2; }\n', ('set', '@a', '5')),
    ('{ a.b = 2; a = { x = 1; }; }\n', ('set', 'a', '5')), ('{ a.b = 2; a = { x = 1; }; }\n', ('rm', 'a')),
    ('{\n  s = {\n    x = 1;\n  };\n  s.b.c = 2;\n  t = 1;\n}\n', ('set', 's', '5')), ('{\n  s = {\n    x = 1;\n  };\n  s.b.c = 2;\n  t = 1;\n}\n', ('rm', 's')),
    # tenth round: a scope selector deeper than the document's let layers (a negative index still names a layer)
    ('let\n  x = 1;\nin\n{\n  a = x;\n}\n', ('rm', '@@x')), ('let\n  x = 1;\nin\n{\n  a = x;\n}\n', ('set', '@@x', '2')), ('let\n  a = 1;\nin\nlet\n  b = 2;\nin\n{\n  c = a;\n}\n', ('rm', '@@@b')),
    ('let\n  a = 1;\nin\nlet\n  b = 2;\nin\n{\n  c = a;\n}\n', ('rm', '@@@@a')), ('let\n  a = 1;\nin\nlet\n  b = 2;\nin\n{\n  c = a;\n}\n', ('set', '@@@a', '3')), ('{\n  a = 1;\n}\n', ('rm', '@a')), ('{\n  a = 1;\n}\n', ('rm', '@@a')),
    # twelfth round: the attrpath root lies one and two explicit sets down; overwriting it and removing the bare prefix are refused there as at the top
    ('{ x = { a = { b.c = 1; }; }; }\n', ('set', 'x.a.b', '9')), ('{ x = { a = { b.c = 1; }; }; }\n', ('rm', 'x.a.b')), ('{ a = { b.c = 1; }; }\n', ('set', 'a.b', '9')), ('{ a = { b.c = 1; }; }\n', ('rm', 'a.b')),
    ('{\n  a = {\n    n = {\n      b.c = 1;\n      k = 3;\n    };\n    m = 1;\n  };\n}\n', ('set', 'a.n.b', '9')), ('{\n  a = {\n    n = {\n      b.c = 1;\n      k = 3;\n    };\n    m = 1;\n  };\n}\n', ('rm', 'a.n.b')),
    ('{ pkgs }:\n{\n  a = {\n    x = 1;\n  };\n  a.b = 2;\n}\n', ('set', 'a', '5')), ('{ pkgs }:\n{\n  a = {\n    x = 1;\n  };\n  a.b = 2;\n}\n', ('rm', 'a')),
]
def run_C08():
    for text, op in DIRECTED_C08:
        a = parse(text); count('directed-refusal'); r = apply(a, op)
        if r[0] == 'ok': bad('an edit that must be refused (the root is also defined through an attrpath) is accepted', doc=text, ops=[list(op)], out=r[1])
        elif a.rebuild() != text: bad('a refused edit changed the document', doc=text, ops=[list(op)], out=a.rebuild())
    for it in range(N):
        text, meta = gen_doc(R, scoped=R.random() < 0.5, attrpath_nested=R.random() < 0.5, inherits=0.35)
        ops = []
        src = parse(text); cur = text; trace = []
        for step in range(R.randint(2, 6)):
            op, kind = gen_op(cur, step, WRAPPERS[meta['shape']][2])
            if meta.get('inherited') and R.random() < 0.3:         # a path that runs through an inherited name: a non-set on the path, must be refused
                op, kind = (R.choice([('set', '%s.sub%d' % (R.choice(meta['inherited']), step), '1'), ('rm', '%s.sub%d' % (R.choice(meta['inherited']), step)), ('set', '%s.a.b' % R.choice(meta['inherited']), '{ }')]), 'through_inherited')
            before_text = src.rebuild(); before_snap = snapshot(src)
            res = apply(src, op)
            count('%s/%s/%s' % (op[0], kind, res[0] if res[0] == 'ok' else res[1]))
            ops.append(op); trace.append(res)
            if res[0] == 'ok':
                if kind == 'badpath': bad('a malformed path is accepted instead of refused', doc=text, ops=ops[:], out=res[1]); break
                if kind == 'through_inherited': bad('an edit whose path runs through an inherited (non-set) name is accepted instead of refused', doc=text, ops=ops[:], out=res[1]); break
                cur = res[1]; continue
            case = dict(doc=text, ops=ops[:], failing=op, error=res[1:])
            if res[1] not in ('KeyError', 'ValueError'):
                if res[1] == 'ResolutionError': known['F-08'] = known.get('F-08', 0) + 1
                else: bad('refused edit raises %s, not KeyError/ValueError' % res[1], **case)
            after_text = src.rebuild()
            if after_text != before_text: bad('rebuilt text changed by a refused edit', before=before_text, after=after_text, **case)
            elif snapshot(src) != before_snap: bad('document object changed by a refused edit (text still equal)', **case)
            # probes: later edits must behave as if the failed one had never happened
            pp = op[1].lstrip('@'); pre = op[1][:len(op[1]) - len(pp)]
            segs = pp.split('.') if pp and '"' not in pp else []
            for j in range(1, len(segs)):
                ops_probe = ('rm', pre + '.'.join(segs[:j]))
                ops.append(ops_probe); trace.append(apply(src, ops_probe))
                if trace[-1][0] == 'ok': cur = trace[-1][1]
        # replay without the failed operations on a fresh object
        src2 = parse(text); k = 0
        for op, res in zip(ops, trace):
            if res[0] != 'ok': continue
            r2 = apply(src2, op)
            if r2 != res:
                bad('after a refused edit, a later edit behaves differently from a run that never attempted it',
                    doc=text, ops=ops, step=op, with_failed=res[:2] + (res[-1][-200:] if res[0] == 'ok' else res[2],), without_failed=r2[:2] + (r2[-1][-200:],))
                break
        if len(samples) < 2: samples.append({'doc': text, 'ops': ops})

# =================================================================================== C05 / C04 (tree level) / C06 (edit outputs)
DIRECTED_TREE_DOCS = [      # eighth round: attrpath families that share a prefix of three and more segments, and fresh paths whose tail already exists higher up
    '{\n  services.openssh.enable = true;\n  services.openssh.settings.PermitRootLogin = "no";\n  services.openssh.settings.PasswordAuthentication = false;\n  networking.hostName = "box";\n}\n',
    '{\n  a.b.c.d = 1;\n  a.b.c.e = 2;\n  f = 3;\n}\n', '{\n  # about c\n  a.b.c = 1;\n  x = 0;\n  a.b.d = 2; # keep\n}\n',
    '{\n  a.b.c.d.e = 1;\n  a.b.c.d.f = 2;\n  a.b.c.g = 3;\n  a.b.h = 4;\n}\n',
    '{\n  a.c.d = 1;\n  e = 3;\n}\n', '{\n  a.b.c.x = 1;\n  e = 3;\n}\n',
    '{ config, pkgs, ... }:\n{\n  services.nginx.enable = true; # keep on\n  services.proxy.port = 80;\n}\n',
    # tenth round: comments in the places a binding keeps them — between the value and the `;`, after the `;`, above the binding — and edits of OTHER bindings, repeated on one object
    '{\n  meta = {\n    a.b = 1;\n    a.c = 2;\n  };\n}\n', '{\n  a.b = 1;\n  a.c = 2;\n  d = 3;\n}\n',      # twelfth round: a family one explicit set down with two leaves (the root survives an rm); a family next to a plain binding, edited several times on one object
    # eleventh round: an attrpath family that lies two explicit sets down, and one that lies one explicit set and one attrpath segment down
    '{\n  x = {\n    a = {\n      b.c = 1;\n      b.d = 2;\n    };\n  };\n}\n', '{ x = { a = { b.c = 1; }; }; }\n', '{\n  x.y = {\n    a = {\n      b.c = 1;\n    };\n    k = 0;\n  };\n}\n',
    '{\n  a = 1\n  # why\n  ;\n  b = 2;\n}\n', '{\n  a = 1 /* v */; # t\n  b = 2;\n  # end\n}\n', '{ pkgs }:\n{\n  a = 1\n  # why\n  ;\n  b = 2; # two\n}\n', 'f {\n  a = 1\n  # why\n  ;\n  b = 2;\n}\n',
]
ALIAS_SCRIPTS = [    # the same VALUE text given twice (sixth round, made unconditional in the tenth): the two bindings never share a value object
    [('set', 'm', '{ }'), ('set', 'n', '{ }'), ('set', 'm.k', '1')], [('set', 'm', '{ x = 1; }'), ('set', 'n', '{ x = 1; }'), ('rm', 'm.x')],
    [('set', 'm', '{ x = 1; }'), ('set', 'n', '{ x = 1; }'), ('set', 'n.x', '2'), ('set', 'm.y', '3')], [('set', 'p.q', '{ }'), ('set', 'r', '{ }'), ('set', 'r.z', '1'), ('set', 'p.q.w', '2')],
]
def directed_tree_jobs():
    for sc in ALIAS_SCRIPTS:
        for text in ('{\n  a = 1;\n}\n', '{ a = 1; }\n', '{ pkgs }:\n{\n  a = 1;\n}\n'): yield text, sc
    for shape, (pre, suf, _sc) in WRAPPERS.items():          # every wrapper the edit looks through, unconditionally (tenth round)
        body = '{\n  a = 1;\n  keep = 7;\n}'
        if shape in INDENTED_BODY: body = body.replace('\n', '\n  ')
        text = pre + body + suf + ('\n' if not (pre + body + suf).endswith('\n') else '')
        if parse(text).rebuild() != text: continue
        for sc in ([('set', 'a', '2')], [('rm', 'keep')], [('set', 'b.c', '2'), ('set', 'a', '"x"'), ('rm', 'keep')]): yield text, sc
    for text in DIRECTED_TREE_DOCS:
        tree, _ = read_tree(text)
        ks_ = [pstr(k) for k in tree]
        if len(ks_) >= 2 and '#' not in text and '/*' not in text:         # twelfth round (documents with comments keep to the single-edit scripts: a comment between a value and its `;` is re-homed by the first rendering, F-03): one object, an edit of one leaf, then of another, then a removal (what a first rendering leaves behind must not confuse the second edit)
            yield text, [('set', ks_[-1], '4'), ('set', ks_[0], '5'), ('rm', ks_[1]), ('set', ks_[0], '6')]
            yield text, [('set', ks_[0], '5'), ('set', ks_[0], '6'), ('rm', ks_[-1])]
        for k in tree:
            ks = pstr(k)
            yield text, [('set', ks, '7')]
            yield text, [('rm', ks)]
            yield text, [('set', ks, '7'), ('set', ks, '8'), ('rm', ks)]
            if len(k) >= 2:
                yield text, [('set', pstr(k[:-1] + ('fresh',)), '1'), ('rm', pstr(k[:-1] + ('fresh',)))]
                yield text, [('set', pstr(k[:1] + ('mid',) + k[1:]), '9'), ('set', pstr(k[:1] + ('mid',) + k[1:]), '5')]       # the tail of the new path exists one level up
            if len(k) >= 3:
                yield text, [('set', pstr(k[:1] + k[2:]), '9')]          # eleventh round: the same leaf name one level UP (a.d next to a.b.d): a fresh binding, the deeper one keeps its value
                yield text, [('rm', pstr(k[:1] + k[2:]))]                # … and removing that missing path is refused, nothing is deleted
def cross_document_alias():
    """a VALUE text used in one document and edited there must arrive unchanged in the next document (one process, two documents)"""
    for val, below, newv in [('{ enable = true; }', 'cfg.enable', 'false'), ('{\n  x = 1;\n}', 'cfg.y', '2'), ('{ }', 'cfg.z', '1')]:
        count('cross-document-alias')
        first = parse('{\n  a = 1;\n}\n'); apply(first, ('set', 'cfg', val)); apply(first, ('set', below, newv))
        second = parse('{\n  b = 1;\n}\n'); r = apply(second, ('set', 'cfg', val))
        want = apply(parse('{\n  b = 1;\n}\n'), ('set', 'cfg', val + ' '))       # the same value spelled with a trailing blank: never seen before by any cache
        if r[0] != 'ok' or want[0] != 'ok' or read_tree(r[1]) != read_tree(want[1]): bad('a VALUE used and edited in one document arrives changed in another document', doc='{\n  b = 1;\n}\n', ops=[['set', 'cfg', val]], out=r[1] if r[0] == 'ok' else r, earlier=[['set', 'cfg', val], ['set', below, newv]])
def comments_inside_binding(text, path):
    """wording of the comments that lie inside the binding(s) at or below `path` (tree-sitter spans), read like comments_of reads them"""
    import nixread
    root = nixread.ts(text); sn = nixread.set_node(root); out = []
    def walk(setn, prefix):
        for b in nixread.bindings(setn):
            if b.type != 'binding': continue
            names = nixread.attr_names(b.child_by_field_name('attrpath')) or [b.child_by_field_name('attrpath').text.decode()]
            full = prefix + tuple(names); val = b.child_by_field_name('expression')
            if full[:len(path)] == tuple(path) or tuple(path)[:len(full)] == full and len(full) == len(path):
                if full[:len(path)] == tuple(path):
                    stack = [b]
                    while stack:
                        n = stack.pop()
                        if n.type == 'comment': out.append(n.text.decode().strip())
                        stack.extend(n.children)
                    continue
            if tuple(path)[:len(full)] == full and val.type in ('attrset_expression', 'rec_attrset_expression'): walk(val, full)
    if sn is not None: walk(sn, ())
    return out
def run_tree(check):
    cross_document_alias()
    jobs = [(t, {'shape': 'bare'}, sc) for t, sc in directed_tree_jobs()] + [(None, None, None)] * N
    for text, meta, script in jobs:
        if text is None: text, meta = gen_doc(R, scoped=False, quoted=0.15, tiny=0.12, attrpath_nested=R.random() < 0.3)
        src = parse(text); cur = text; ops = []
        for step in range(len(script) if script else R.randint(1, 5)):
            op, kind = (script[step], 'directed') if script else gen_op(cur, step, False)
            if meta.get('tiny') and R.random() < 0.5:
                lp = [k for k in (read_tree(cur) or ({},))[0]]
                if lp: op, kind = ('rm', pstr(R.choice(lp))), 'existing'
            if kind in ('badpath', 'badvalue') and R.random() < 0.6: continue
            tree0, d0 = read_tree(cur)
            res = apply(src, op); ops.append(op)
            count('%s/%s/%s' % (op[0], kind, res[0] if res[0] == 'ok' else res[1]))
            case = dict(doc=text, ops=ops[:])
            if kind in ('badpath', 'badvalue'):
                if res[0] == 'ok': bad('malformed %s accepted' % kind, **case)
                continue
            p = parse_path(op[1])
            exp = ref_set(tree0, p, op[2]) if op[0] == 'set' else ref_rm(tree0, p)
            attr_root = any(k[:len(p)] == p and len(k) > len(p) for k in tree0) and op[0] == 'set'
            if res[0] != 'ok':
                if isinstance(exp, tuple): continue                                   # legitimate refusal
                if attr_root: continue                                                # overwrite of an attrpath root / non-empty set
                if res[1] == 'KeyError' and op[0] == 'rm' and any(k[:len(p)] == p and len(k) > len(p) for k in tree0): continue   # rm of a bare attrpath prefix: tolerated
                if 'Mixed explicit' in res[-1] or 'attrpath' in res[-1].lower() or mixed_shape(cur, p): count('tolerated:mixed-attrpath-explicit'); continue
                if check == 'C05': bad('well-formed edit refused: %s %s' % (res[1], res[2]), **case)
                continue
            out = res[1]; cur_prev = cur; cur = out
            got = read_tree(out)
            if got is None:
                if check == 'C05': bad('emitted text does not parse', out=out, **case)
                break
            tree1, d1 = got
            if isinstance(exp, tuple):
                if exp[1] == 'non-set on the path' and check == 'C05': bad('edit through a non-set value accepted', out=out, **case)
                continue
            if check == 'C05':
                if d1: bad('duplicate definitions after the edit: %r' % d1, out=out, **case)
                elif not tree_matches(tree1, exp, p): bad('attribute tree after the edit is not the requested change', out=out, expected=sorted(map(str, exp.items())), got=sorted(map(str, tree1.items())), **case)
                elif op[0] == 'set' and p not in tree0 and not any(k[:len(p)] == p for k in tree0):
                    # a new binding goes last within its family / set
                    keys = [k for k in tree1 if k[:len(p) - 1] == p[:len(p) - 1]]
                    fam = [k for k in keys if k[:len(p)] == p]
                    if keys and fam and keys[-1] not in fam and not any('.' in '' for _ in ()):
                        # allowed exception: an existing attrpath family is extended in place
                        root_exists = any(k[:1] == p[:1] for k in tree0)
                        if not root_exists: bad('new binding is not placed last', out=out, **case)
            if check == 'C04':
                if d1 and not d0: bad('the edit left a second definition of a path beside the first: %r' % (d1,), out=out, **case)
                keep0 = {k: v for k, v in tree0.items() if k[:len(p)] != p and not (k == p[:len(k)])}
                keep1 = {k: v for k, v in tree1.items() if k[:len(p)] != p and not (k == p[:len(k)])}
                if keep0 != keep1: bad('a binding outside the addressed one changed', out=out, before=sorted(map(str, keep0.items())), after=sorted(map(str, keep1.items())), **case)
                others0 = [k for k in tree0 if k[:len(p)] != p and not (k == p[:len(k)])]
                others1 = [k for k in tree1 if k[:len(p)] != p and not (k == p[:len(k)])]
                if [k for k in others1 if k in tree0] != [k for k in others0 if k in tree1]: bad('order of the other bindings changed', out=out, **case)
                c0, c1 = comments_of(cur_prev), comments_of(out)
                if op[0] == 'set' and c0 != c1:
                    # comments inside the binding that is replaced may go with its old value; every other comment stays, once, worded as it was
                    # (tenth round: the earlier rule accepted ANY loss of comments)
                    inside = comments_inside_binding(cur_prev, p)
                    lost = list(c0)
                    for c_ in c1:
                        if c_ in lost: lost.remove(c_)
                    gained = list(c1)
                    for c_ in c0:
                        if c_ in gained: gained.remove(c_)
                    for c_ in inside:
                        if c_ in lost: lost.remove(c_)
                    if lost or gained: bad('comments outside the addressed binding changed by a set', lost=lost, gained=gained, out=out, **case)
            if check == 'C06':
                again = parse(out).rebuild()
                if again != out: bad('text emitted by a successful edit is not a fixed point of parse/rebuild', out=out, again=again, **case)
                if src.rebuild() != out: bad('document object renders differently from the text the edit returned', **case)
        if len(samples) < 2: samples.append({'doc': text, 'ops': ops})

# =================================================================================== C04, scoped edits: byte-level frame
def run_scoped_frame():
    import difflib
    for it in range(max(1, N // 2)):
        text, meta = gen_doc(R, scoped=True, joints=0.6)
        if not meta['layers'] or parse(text).rebuild() != text: continue
        src = parse(text); cur = text; layers = [dict(L) for L in meta['layers']]; ops = []
        for step in range(R.randint(1, 3)):
            depth = R.randint(1, len(layers)); L = layers[len(layers) - depth]
            name = R.choice(sorted(L)); kind = R.choice(['set_existing', 'set_existing', 'set_new', 'rm'])
            if kind == 'rm' and len(L) == 1: kind = 'set_existing'              # never empty a layer here (C09 covers wrapper removal)
            if kind == 'set_new': name = 'fresh%d' % step
            op = ('rm', '@' * depth + name) if kind == 'rm' else ('set', '@' * depth + name, R.choice(['51', '"t"', './q.nix']))
            res = apply(src, op); ops.append(op); count('scoped-frame/%s/depth%d/layers%d' % (kind, depth, len(layers)))
            case = dict(doc=text, ops=ops[:])
            if res[0] != 'ok': bad('scoped edit of an existing layer refused: %s %s' % res[1:], **case); break
            out = res[1]
            changed = [l[2:] for l in difflib.ndiff(cur.split('\n'), out.split('\n')) if l[:2] in ('- ', '+ ')]
            stray = [l for l in changed if not l.strip().startswith(name + ' =')]
            if stray: bad('a scoped edit changed text outside the addressed binding', out=out, changed_lines=stray[:6], **case); break
            if kind == 'rm': del L[name]
            else: L[name] = op[2]
            cur = out
        if len(samples) < 3: samples.append({'doc': text, 'ops': ops})

# =================================================================================== C05, scoped edits: exact change of the layers (twelfth round)
def run_scoped_exact():
    """every layer of one-, two- and three-layer documents, every name: rm, set of the existing name, set of a fresh name, then the same on the result —
    the layers read back by the independent reader are exactly the requested change (an emptied layer disappears, and only that one), the body keeps its tree"""
    from edit_lib import read_layers
    DOCS = ['let\n  a = 1;\nin\nlet\n  b = 2;\nin\n{\n  c = b;\n}\n', 'let\n  a = 1;\n  z = 0;\nin\nlet\n  b = 2;\nin\n{\n  c = b;\n}\n',
            'let\n  a = 1;\nin\nlet\n  b = 2;\nin\nlet\n  c = 3;\nin\n{\n  d = c;\n}\n', 'let\n  a = 1;\nin\nlet\n  b = 2;\n  y = 0;\nin\nlet\n  c = 3;\nin\n{\n  d = c;\n}\n',
            'let\n  a = 1;\nin\n{\n  c = a;\n}\n', '{ pkgs }:\nlet\n  a = 1;\nin\nlet\n  b = 2;\nin\n{\n  c = b;\n}\n',
            # thirteenth round: attrpath families inside the layers (a sibling and a deeper leaf are added below the existing root)
            'let\n  a.p = 1;\nin\nlet\n  b.q = 2;\n  b.r = 3;\nin\n{\n  x = a;\n}\n', '{ pkgs }:\nlet\n  cfg.a = 1;\nin\nlet\n  cfg.a = 2;\n  y = 3;\nin\n{\n  v = cfg.a;\n}\n']
    def expect(layers, op):
        depth = len(op[1]) - len(op[1].lstrip('@')); name = op[1].lstrip('@'); L = [dict(x) for x in layers]
        if op[0] == 'set' and depth == 1 and not L: return [{name: op[2]}]          # `set @name` on a document without a let wraps it in one
        if depth > len(L): return None
        i = len(L) - depth
        if op[0] == 'rm':
            if name not in L[i]: return None
            del L[i][name]
            if not L[i]: del L[i]
        else: L[i][name] = op[2]
        return L
    def step(cur, op, hist):
        lay0 = read_layers(cur); tr0 = read_tree(cur); exp = expect(lay0, op); res = apply(parse(cur), op); count('scoped-exact/%s/%s' % (op[0], 'ok' if res[0] == 'ok' else 'refused'))
        if exp is None:
            if res[0] == 'ok': bad('a scoped edit that names a missing layer or a missing name is accepted', doc=hist[0], ops=hist[1] + [list(op)], out=res[1])
            return None
        if res[0] != 'ok': bad('well-formed scoped edit refused: %s' % (res[1:],), doc=hist[0], ops=hist[1] + [list(op)]); return None
        lay1 = read_layers(res[1]); tr1 = read_tree(res[1])
        if lay1 is None or tr1 is None: bad('emitted text does not parse', doc=hist[0], ops=hist[1] + [list(op)], out=res[1]); return None
        def flat(L):       # `cfg = { a = 9; }` and `cfg.a = 9` define the same attribute: layers are compared as flattened attribute trees
            from edit_lib import value_leaves
            out = {}
            for k_, v_ in L.items():
                for pth, leaf in (value_leaves(v_) or {(): v_}).items():
                    kk = k_ + ''.join('.' + seg for seg in pth)
                    while kk in out: kk += ' (defined again)'
                    out[kk] = norm(leaf)
            return sorted(out.items())
        if [flat(x) for x in lay1] != [flat(x) for x in exp] or tr1 != tr0:
            bad('let layers after a scoped edit are not the requested change', doc=hist[0], ops=hist[1] + [list(op)], out=res[1], expected=[sorted(x.items()) for x in exp], got=[sorted(x.items()) for x in lay1])
            return None
        return res[1]
    for text in DOCS:
        lay = read_layers(text)
        if lay is None or parse(text).rebuild() != text: bad('harness: directed scoped document not readable or not canonical', doc=text); continue
        firsts = []
        for depth in range(1, len(lay) + 2):
            names = sorted(lay[len(lay) - depth]) if depth <= len(lay) else ['a']
            for nm in names + ['fresh'] + sorted({n_.split('.')[0] + sfx for n_ in names if '.' in n_ for sfx in ('.fresh', '.sub.deep')}):
                firsts += [('rm', '@' * depth + nm), ('set', '@' * depth + nm, '9')]
        for op in firsts:
            cur = step(text, op, (text, []))
            if cur is None: continue
            for op2 in firsts:
                step(cur, op2, (text, [list(op)]))
# =================================================================================== C04 / C05 (fourteenth round): the set is reached through a NAME, and the
# name is bound more than once on the way (an outer let above a lambda / assert / call and an inner let; two nested `with`s): the edit lands in the
# set Nix's scoping names — the innermost binding — and nowhere else.  Expected texts are written down, compared modulo white space.
NAMED_TARGETS = [
    ('let a = { x = 1; y = 1; }; in { z }: let a = { x = 2; y = 2; }; in a', ('set', 'x', '9'), 'let a = { x = 1; y = 1; }; in { z }: let a = { x = 9; y = 2; }; in a'),
    ('let a = { x = 1; y = 1; }; in { z }: let a = { x = 2; y = 2; }; in a', ('rm', 'y'), 'let a = { x = 1; y = 1; }; in { z }: let a = { x = 2; }; in a'),
    ('let a = { x = 1; y = 1; }; in { z }: let a = { x = 2; y = 2; }; in a', ('set', 'w', '3'), 'let a = { x = 1; y = 1; }; in { z }: let a = { x = 2; y = 2; w = 3; }; in a'),
    ('let a = { x = 1; }; in assert c; let a = { x = 2; }; in a', ('set', 'x', '9'), 'let a = { x = 1; }; in assert c; let a = { x = 9; }; in a'),
    ('let a = { x = 1; }; in { z }: let a = { x = 2; }; in f a', ('set', 'x', '9'), 'let a = { x = 1; }; in { z }: let a = { x = 9; }; in f a'),
    ('let a = { x = 1; }; in (let a = { x = 2; }; in a)', ('set', 'x', '9'), 'let a = { x = 1; }; in (let a = { x = 9; }; in a)'),
    ('let b = { x = 1; }; in { z }: let a = { x = 2; }; in a', ('set', 'x', '9'), 'let b = { x = 1; }; in { z }: let a = { x = 9; }; in a'),
    ('with { a = { x = 1; }; }; with { a = { y = 2; }; }; f a', ('set', 'n', '3'), 'with { a = { x = 1; }; }; with { a = { y = 2; n = 3; }; }; f a'),
    ('with { a = { x = 1; y = 0; }; }; with { a = { y = 2; z = 3; }; }; a', ('rm', 'y'), 'with { a = { x = 1; y = 0; }; }; with { a = { z = 3; }; }; a'),
    ('{ p }: let lib = { k = 1; }; in with lib; let args = { x = 1; }; in with lib; p.mk args', ('set', 'x', '2'), '{ p }: let lib = { k = 1; }; in with lib; let args = { x = 2; }; in with lib; p.mk args'),
    ('with { lib = 1; }; with { a = { y = 2; }; }; f a', ('set', 'y', '5'), 'with { lib = 1; }; with { a = { y = 5; }; }; f a'),
    ('with { a = { x = 1; }; }; with { b = { y = 2; }; }; a', ('set', 'x', '7'), 'with { a = { x = 7; }; }; with { b = { y = 2; }; }; a'),
]
def run_named_targets():
    sq = lambda t: ' '.join(t.split())
    for text, op, want in NAMED_TARGETS:
        count('named-target/' + op[0]); res = apply(parse(text + '\n'), op)
        if res[0] != 'ok': bad('an edit of a set reached through a name is refused: %s' % (res[1:],), doc=text, ops=[list(op)], expected=want); continue
        if sq(res[1]) != sq(want): bad('an edit of a set reached through a name landed in another set (or changed something else)', doc=text, ops=[list(op)], out=res[1], expected=want)
# =================================================================================== C09
ML_VALUES = ['[\n"x86_64-linux"\n"aarch64-linux"\n]', '{\n  k = 1;\n  j = 2;\n}', "''\n  line\n''", 'assert x; y', 'let\n  c = 1;\nin\nc', 'x:\nx']
def multiline_values():
    """twelfth round (C06): a value that spans lines written into a one-line set — as the only binding, as a second binding, into an empty set —
    in every inline position a set can stand in; and one-line sets whose lone value rebuilds over several lines, without any edit"""
    HOSTS = [('{\n  pname = "x";\n  meta = { };\n}\n', 'meta.platforms'), ('{ pkgs }: { packages = [ ]; }\n', 'packages'), ('pkgs.mkShell { packages = [ ]; }\n', 'packages'), ('{\n  m = { x = 1; };\n}\n', 'm.y'),
             ('{\n  m = { x = 1; };\n}\n', 'm.x'), ('{ a = 1; }\n', 'a'), ('{ a = 1; }\n', 'b'), ('f { a = 1; } { b = 2; }\n', 'b'), ('{\n  l = [ { a = 1; } ];\n  v = { };\n}\n', 'v.w'), ('x: { a = 1; }\n', 'a'), ('with p; { a = 1; }\n', 'a')]
    for text, pth in HOSTS:
        for v in ML_VALUES:
            count('multiline-value'); r = apply(parse(text), ('set', pth, v))
            if r[0] != 'ok': continue
            again = parse(r[1]).rebuild()
            if again != r[1]: bad('text emitted by a successful edit is not a fixed point of parse/rebuild', doc=text, ops=[['set', pth, v]], out=r[1], again=again)
    for text in ['{ a = { b = assert x; y; }; }\n', 'f { b = assert x; y; }\n', '{ a = { b = let c = 1; in c; }; }\n', 'x: { b = assert x; y; }\n', '{ a = [ { b = assert x; y; } ]; }\n', '{ a = { b = x: assert x; y; }; }\n',
                 '{ a = { b = with p; assert x; y; }; }\n', 'f { b = let c = 1; in c; } z\n', '{ a = { b = [\n  1\n]; }; }\n', "{ a = { b = ''\n  s\n''; }; }\n"]:
        count('multiline-lone-value')
        try: r1 = parse(text).rebuild(); r2 = parse(r1).rebuild()
        except Exception as ex: bad('parse/rebuild raises %s' % type(ex).__name__, doc=text); continue
        if r1 != r2: bad('rebuilt text is not a fixed point', doc=text, once=r1, twice=r2)
def session_core():
    """twelfth round: scripts applied to ONE document object against the same scripts with a fresh parse of the text between the steps — a layer or a
    nested set created earlier in the session (by a dotted scoped path, a nested plain path) must behave like one that was parsed"""
    from edit_lib import read_layers
    SCRIPTS = [[('set', '@cfg.a', '1'), ('set', '@b', '2'), ('set', '@cfg.c', '3'), ('rm', '@b')], [('set', '@b', '2'), ('set', '@cfg.a', '1'), ('rm', '@cfg.a')],
               [('set', '@cfg.a.b', '1'), ('set', '@cfg.a.c', '2'), ('set', '@d', '3'), ('rm', '@cfg.a.b')], [('set', '@m', '{ }'), ('set', '@m.k', '1'), ('set', '@n', '2'), ('rm', '@m.k')],
               [('set', 'p.q', '1'), ('set', 'r', '2'), ('set', 'p.s', '3'), ('rm', 'r')], [('set', '@b', '2'), ('rm', '@b'), ('set', '@cfg.a', '1'), ('set', '@e', '4')]]
    DOCS = ['{\n  x = 1;\n}\n', '{ pkgs }:\n{\n  x = 1;\n}\n', 'with pkgs;\n{\n  x = 1;\n}\n', 'mk ({\n  x = 1;\n})\n', 'let\n  k = 0;\nin\n{\n  x = k;\n}\n', 'let\n  k = 0;\nin\nlet\n  j = 1;\nin\n{\n  x = k;\n}\n']
    for text in DOCS:
        for sc in SCRIPTS:
            one = parse(text); cur = text; done = []
            for op in sc:
                count('session-core'); done.append(list(op))
                r_one = apply(one, op); r_fresh = apply(parse(cur), op)
                shape_ = lambda t_: (read_layers(t_), read_tree(t_))          # layers and body as the independent reader sees them; layout is not compared (it may differ after an unwrap)
                if r_one[0] != r_fresh[0] or (r_one[0] == 'ok' and shape_(r_one[1]) != shape_(r_fresh[1])):
                    bad('an edit on the document object of earlier edits differs from the same edit on a fresh parse of their text', doc=text, ops=done, same_object=r_one[1] if r_one[0] == 'ok' else r_one, fresh_parse=r_fresh[1] if r_fresh[0] == 'ok' else r_fresh); break
                if r_fresh[0] != 'ok': break
                if read_layers(r_fresh[1]) is None: bad('emitted text does not parse', doc=text, ops=done, out=r_fresh[1]); break
                cur = r_fresh[1]
def run_C09():
    import copy
    session_core()
    for it in range(N):
        shape = R.choice(['bare', 'lambda_formals', 'lambda_id', 'paren', 'assert_blank', 'assert_comment', 'lambda_assert_blank'])      # eleventh round: trivia between `assert c;` and the let
        n = R.randrange(0, 4); layers = gen_layers(R, n)
        if shape.startswith(('assert', 'lambda_assert')) and n == 0: n = 1; layers = gen_layers(R, 1)
        for li, L in enumerate(layers):          # eighth round: bindings written in attrpath form inside a let layer (`cfg.a = 1;`), addressed as @cfg.a
            if R.random() < 0.35:
                fam = {'cfg.a': str(R.randrange(9))}
                if R.random() < 0.6: fam['cfg.b'] = '"b"'
                # tenth round: the family stands before, after or between the plain bindings (values and render order are not parallel lists)
                items = list(L.items()); cut = R.choice([0, 0, len(items), R.randrange(len(items) + 1)])
                layers[li] = dict(items[:cut] + list(fam.items()) + items[cut:])
        body = R.choice(['{\n  x = 1;\n  y = [\n    1\n  ];\n}', '{\n  x = 1;\n  v = 0;\n  a = "body";\n}', '{\n  inherit w src;\n  x = 1;\n}', '{\n  inherit (pkgs) v;\n  x = 1;\n}'])         # the last two only INHERIT names that scoped edits use: the let layer is still what `@name` addresses
        body_keys = ('v', 'a') if 'v = 0' in body else ()
        jt = [R.choice(['# joint %d\n' % i, '/* j%d */\n' % i]) if R.random() < 0.3 else '' for i in range(n)]
        inner = let_text(layers, body, jt)
        text = {'bare': inner, 'lambda_formals': '{ pkgs }:\n' + inner, 'lambda_id': 'pkgs:\n' + inner, 'paren': '(' + inner + ')', 'assert_blank': 'assert true;\n\n' + inner, 'assert_comment': 'assert true;\n# note\n' + inner,
                'lambda_assert_blank': '{ lib }:\n\nassert lib.ok;\n\n' + inner}[shape] + '\n'
        src = parse(text); exp = copy.deepcopy(layers); ops = []; cur = text
        for step in range(R.randint(1, 5)):
            depth = R.choice([1, 1, 2, 2, 3, 4]); name = R.choice(LAYER_NAMES + ['z']); opk = R.choice(['set', 'set', 'rm', 'rm'])
            if depth <= len(exp) and R.random() < 0.7: name = R.choice(sorted(exp[len(exp) - depth]))      # mostly names that exist in the addressed layer
            val = str(R.randrange(70, 80)); sel = '@' * depth + name
            op = ('set', sel, val) if opk == 'set' else ('rm', sel); ops.append(op)
            if not exp and depth == 1 and opk == 'set' and name in body_keys: known['F-37'] = known.get('F-37', 0) + 1; break      # listed: without a let, @NAME of a body key edits the body
            err = None; e2 = copy.deepcopy(exp)
            if opk == 'set':
                if depth > len(e2):
                    if depth == 1 and not e2: e2 = [{name: val}]
                    else: err = 'missing layer'
                else: e2[len(e2) - depth][name] = val
            else:
                if depth > len(e2): err = 'missing layer'
                elif name not in e2[len(e2) - depth]: err = 'missing key'
                else:
                    del e2[len(e2) - depth][name]
                    if not e2[len(e2) - depth]: del e2[len(e2) - depth]
            before = cur; before_obj = src.rebuild(); res_fresh = apply(parse(before_obj), op); res = apply(src, op)
            if res[0] == 'ok' and res_fresh[0] == 'ok' and res[1] != res_fresh[1] and step > 0 and not any(jt):       # with a comment between `in` and the body the object remembers where the comment stood once its layer is gone: not judged
                bad('a scoped edit on a document object that was edited before differs from the same edit on a fresh parse of its text', same_object=res[1], fresh_parse=res_fresh[1], doc=text, ops=ops[:]); break
            count('%s/%s/depth%d/layers%d/%s' % (shape, opk, depth, len(exp), 'refuse' if err else 'ok'))
            case = dict(doc=text, ops=ops[:])
            if err:
                if res[0] == 'ok': bad('scoped edit accepted although it must be refused (%s)' % err, out=res[1], **case); break
                if res[1] not in ('KeyError', 'ValueError'): bad('scoped refusal raises %s' % res[1], **case)
                if src.rebuild() != before_obj: bad('refused scoped edit changed the document', **case); break
                continue
            if res[0] != 'ok': bad('scoped edit refused unexpectedly: %s %s' % res[1:], **case); break
            out = res[1]; cur = out
            chain = read_layers(out)
            if chain is None: bad('output of a scoped edit does not parse', out=out, **case); break
            if chain != e2: bad('wrong let layers after a scoped edit', out=out, expected=e2, got=chain, **case); break
            if body_text(out) != body: bad('attribute set body changed by a scoped edit', out=out, **case); break
            if len(e2) == len(exp) and comments_of(out) != comments_of(before):      # no layer created or removed: every comment stays
                bad('comments outside the addressed binding changed by a scoped edit', out=out, before=comments_of(before), after=comments_of(out), **case); break
            exp = e2
        if len(samples) < 2: samples.append({'doc': text, 'ops': ops})

def set_ends_with_comment(text):
    sn = set_node(ts(text))
    kids = [c for c in sn.children if c.type not in ('}',)] if sn is not None else []
    return bool(kids) and kids[-1].type == 'comment'

# =================================================================================== C19
def explicit_path(text, k):
    """every prefix of the path is an explicit single-name binding (`a = { b = …; };`, never `a.b = …;`)"""
    import nixread
    n = nixread.set_node(nixread.ts(text))
    for i, seg in enumerate(k):
        if n is None or n.type not in ('attrset_expression', 'rec_attrset_expression'): return False
        hit = None
        for b in nixread.bindings(n):
            if b.type != 'binding': continue
            names = nixread.attr_names(b.child_by_field_name('attrpath'))
            if names and names[0] == seg:
                if len(names) != 1: return False
                hit = b.child_by_field_name('expression')
        if hit is None: return False
        n = hit
    return True

DIRECTED_C19 = [     # unconditional: scope-prefixed sets on explicitly nested body paths of documents without a let (seventh round)
    ('{\n  a = {\n    b = 1;\n  };\n  d = 3;\n}\n', ['@a.b', '@d']),
    ('{ pkgs }:\n{\n  meta = {\n    broken = false;\n    license = 1;\n  };\n  version = "1";\n}\n', ['@meta.broken', '@version', '@meta.license']),
    ('{\n  a = {\n    b = {\n      c = 1;\n    };\n  };\n  x = {\n    y = 2;\n  };\n  z = 3;\n}\n', ['@a.b.c', '@x.y', '@z']),
    ('let\n  k = 1;\nin\n{\n  a = {\n    b = 1;\n  };\n  d = 3;\n}\n', ['a.b', 'd', '@k']),
]
def run_C19():
    import itertools
    for text, paths in DIRECTED_C19:
        outs = {}
        for perm in itertools.permutations(paths):
            a = parse(text); r = None; count('directed-commute')
            for i, p in enumerate(perm): r = apply(a, ('set', p, str(10 + paths.index(p))))
            outs[perm] = r
        if len({str(v) for v in outs.values()}) > 1:
            (p1, r1), (p2, r2) = [(k, v) for k, v in outs.items()][:1] + [(k, v) for k, v in outs.items() if str(v) != str(list(outs.values())[0])][:1]
            bad('sets on different existing paths give different documents in different orders', doc=text, ops=[['set', p, str(10 + paths.index(p))] for p in p1], other_order=list(p2), pq=r1[1] if r1[0] == 'ok' else r1, qp=r2[1] if r2[0] == 'ok' else r2)
    # ninth round: a fresh scope-prefixed set followed by rm restores the text also when the let layers hold attrpath bindings interleaved with
    # other bindings or carrying comments (the layer is written back in source order, not in lookup order)
    for text, sels in [('let\n  x.y = 1;\n  q = 2;\n  x.z = 3;\nin\n{\n  a = q;\n}\n', ['@fresh', '@x.fresh']), ('let\n  x.y = 1; # c\n  q = 2;\nin\n{\n  a = q;\n}\n', ['@fresh', '@x.fresh']),
                       ('{ pkgs }:\nlet\n  m.a = 1;\n  k = 2;\n  m.b = 3;\nin\nlet\n  z = 1;\nin\n{\n  a = k;\n}\n', ['@fresh', '@@fresh', '@@m.fresh']),
                       ('let\n  # lead\n  s.a.b = 1;\n  t = 2; # eol\n  s.a.c = 3;\n  s.d = 4;\nin\n{\n  a = t;\n}\n', ['@fresh', '@s.fresh', '@s.a.fresh']),
                       # thirteenth round: a comment on the `let` line of one layer of a stack (each layer keeps its own)
                       ('let # shared inputs\n  x = 1;\nin\nlet\n  y = 2;\nin\n{\n  a = x;\n  b = y;\n}\n', ['@z', '@@z']),
                       ('let\n  x = 1;\nin\nlet # derived\n  y = 2;\nin\n{\n  a = x;\n  b = y;\n}\n', ['@z', '@@z']),
                       ('{ pkgs }:\nlet # one\n  x = 1;\nin\nlet # two\n  y = 2;\nin\nlet\n  w = 3;\nin\n{\n  a = x;\n}\n', ['@z', '@@z', '@@@z'])]:
        for sel in sels:
            for reparse in (False, True):
                count('directed-scoped-set-rm'); a = parse(text); r1 = apply(a, ('set', sel, '5'))
                r2 = apply(parse(r1[1]) if (reparse and r1[0] == 'ok') else a, ('rm', sel))
                if r1[0] != 'ok' or r2[0] != 'ok' or r2[1] != text: bad('set of a fresh scope-prefixed path then rm does not restore the text', doc=text, ops=[['set', sel, '5'], ['rm', sel]], got=r2[1] if r2[0] == 'ok' else r2)
    # unconditional core for the deep attrpath documents (made so in the tenth round: under a random law a seed of the eighth round went unseen once the
    # generator changed): every leaf — the same set twice on the printed text equals once; rm then set restores the tree
    for text in DIRECTED_TREE_DOCS:
        tr0 = read_tree(text)
        if tr0 is None or parse(text).rebuild() != text: continue
        for k in tr0[0]:
            if any(s_.startswith('<inherit') for s_ in k): continue
            pth = pstr(k); count('directed-deep-laws')
            r1 = apply(parse(text), ('set', pth, '7')); 
            if r1[0] != 'ok': continue
            r2 = apply(parse(r1[1]), ('set', pth, '7'))
            if r2[0] != 'ok' or r2[1] != r1[1]: bad('the same set applied twice differs from once', doc=text, ops=[['set', pth, '7']] * 2, once=r1[1], twice=r2[1] if r2[0] == 'ok' else r2); continue
            v0 = tr0[0][k]
            if v0.startswith('{') or '#' in v0 or '/*' in v0: continue
            r3 = apply(parse(text), ('rm', pth))
            if r3[0] != 'ok': bad('rm of an existing leaf is refused', doc=text, ops=[['rm', pth]], got=r3); continue
            r4 = apply(parse(r3[1]), ('set', pth, v0)); t4 = read_tree(r4[1]) if r4[0] == 'ok' else None
            if t4 is None or not tree_matches(t4[0], tr0[0], k): bad('rm then set of the removed value does not restore the attribute tree', doc=text, ops=[['rm', pth], ['set', pth, v0]], got=r4[1] if r4[0] == 'ok' else r4)
    # tenth round: a quoted segment that is spelled like a plain identifier, below an explicit set — the same path must find the same binding every time
    for text in ('{\n  a = 1;\n}\n', '{\n  programs = {\n    "git" = {\n      enable = true;\n    };\n    "vim" = {\n      enable = false;\n    };\n  };\n}\n'):
        for pth in ('programs."git".enable', 'programs."vim".enable', 'programs."x y".enable', 'programs."with".enable', '"programs"."git"."enable"'):
            count('directed-quoted-twice')
            r1 = apply(parse(text), ('set', pth, 'false'))
            if r1[0] != 'ok': continue
            r2 = apply(parse(r1[1]), ('set', pth, 'false'))
            if r2[0] != 'ok' or r2[1] != r1[1]: bad('the same set applied twice differs from once', doc=text, ops=[['set', pth, 'false']] * 2, once=r1[1], twice=r2[1] if r2[0] == 'ok' else r2); continue
            r3 = apply(parse(r1[1]), ('rm', pth))
            if r3[0] != 'ok': bad('rm of a path a set has just written is refused', doc=text, ops=[['set', pth, 'false'], ['rm', pth]], got=r3); continue
            r4 = apply(parse(r3[1]), ('set', pth, 'false'))
            if r4[0] != 'ok' or read_tree(r4[1]) != read_tree(r1[1]): bad('rm then set of the removed value does not restore the attribute tree', doc=text, ops=[['set', pth, 'false'], ['rm', pth], ['set', pth, 'false']], got=r4[1] if r4[0] == 'ok' else r4)
        a_ = apply(parse(text), ('set', 'programs."git".enable', 'false')); b_ = apply(parse(text), ('set', 'programs."vim".enable', 'true'))
        if a_[0] == 'ok' and b_[0] == 'ok':
            ab = apply(parse(a_[1]), ('set', 'programs."vim".enable', 'true')); ba = apply(parse(b_[1]), ('set', 'programs."git".enable', 'false'))
            if ab[0] == 'ok' and ba[0] == 'ok' and read_tree(ab[1]) != read_tree(ba[1]): bad('two sets on different paths do not commute', doc=text, pq=ab[1], qp=ba[1])
    for it in range(N):
        text, meta = gen_doc(R, scoped=True, maxlayers=2, layer_refs=0.5)
        if it < 8 * len(DIRECTED_TREE_DOCS): text, meta = DIRECTED_TREE_DOCS[it % len(DIRECTED_TREE_DOCS)], {'shape': 'bare', 'layers': [], 'refs': []}      # deep attrpath families under every law
        if parse(text).rebuild() != text: continue       # canonical documents only
        paths = [p for p in existing_paths(text)]
        tree0, _ = read_tree(text)
        leafs = [p for p in tree0 if not any(s.startswith('<inherit') for s in p) and p[-1] not in meta['refs']]        # reference-valued bindings: law 1 only
        law = R.choice(['twice', 'set_rm', 'rm_set', 'commute', 'scoped_set_rm'])
        reparse = R.random() < 0.5           # as the CLI does: the second command starts from the text the first one printed
        def nxt(a, r): return parse(r[1]) if (reparse and r[0] == 'ok') else a
        count(law + '/' + meta['shape'] + ('/reparse' if reparse else '/same-object'))
        try:
            if law == 'twice' and paths:
                p = pstr(R.choice(paths + [('fresh',)])); v = R.choice(VALUES + ['/* pinned */ "2.0"', '# why\n7', '"v" # eol'])
                if meta['refs'] and R.random() < 0.6: p = R.choice(meta['refs'])         # through a reference into a let layer
                if v.endswith('# eol'): known['F-43'] = known.get('F-43', 0) + 1; continue      # listed: a VALUE with a trailing line comment next to the binding's own end-of-line comment
                a = parse(text); r1 = apply(a, ('set', p, v)); r2 = apply(nxt(a, r1), ('set', p, v))
                if r1[0] == 'ok' and r1 != r2: bad('the same set applied twice differs from once', doc=text, ops=[['set', p, v]] * 2, once=r1[1], twice=r2[1] if r2[0] == 'ok' else r2)
            elif law == 'set_rm':
                p = 'fresh_k'; v = R.choice(VALUES)
                if reparse and set_ends_with_comment(text): known['F-42'] = known.get('F-42', 0) + 1; continue     # listed: the new binding is written after the set's last comment line, which a re-parse attaches to it
                a = parse(text); r1 = apply(a, ('set', p, v)); r2 = apply(nxt(a, r1), ('rm', p))
                if r1[0] == 'ok' and (r2[0] != 'ok' or r2[1] != text): bad('set of a fresh single-segment path then rm does not restore the text', doc=text, ops=[['set', p, v], ['rm', p]], got=r2[1] if r2[0] == 'ok' else r2)
            elif law == 'scoped_set_rm' and WRAPPERS[meta['shape']][2]:
                layer_names = {k for L in meta['layers'] for k in L}
                body_keys = [k[0] for k in leafs if len(k) == 1 and IDENT.match(k[0]) and k[0] not in layer_names]
                p = '@' + (R.choice(body_keys) if body_keys and R.random() < 0.6 else 'fresh_k'); v = R.choice(VALUES[:5])    # a name fresh in the scope, possibly a key of the body
                if meta.get('commented') and not meta['layers']: known['F-39'] = known.get('F-39', 0) + 1; continue      # listed: final newline lost when the set carries a leading comment
                if not meta['layers'] and p != '@fresh_k': known['F-37'] = known.get('F-37', 0) + 1; continue      # listed: without a let, @NAME of a body key edits the body
                a = parse(text); r1 = apply(a, ('set', p, v)); r2 = apply(nxt(a, r1), ('rm', p))
                if r1[0] == 'ok' and (r2[0] != 'ok' or r2[1] != text): bad('set of a fresh scope-prefixed path then rm does not restore the text', doc=text, ops=[['set', p, v], ['rm', p]], got=r2[1] if r2[0] == 'ok' else r2)
            elif law == 'rm_set' and leafs:
                p = R.choice(leafs); v = tree0[p]
                if v.startswith('{') or '#' in v or '/*' in v or any('.' in s for s in p): continue
                a = parse(text); r1 = apply(a, ('rm', pstr(p))); r2 = apply(nxt(a, r1), ('set', pstr(p), v))
                if r1[0] == 'ok':
                    t2 = read_tree(r2[1]) if r2[0] == 'ok' else None
                    if t2 is None or not tree_matches(t2[0], tree0, p): bad('rm then set of the removed value does not restore the attribute tree', doc=text, ops=[['rm', pstr(p)], ['set', pstr(p), v]], got=r2[1] if r2[0] == 'ok' else r2)
            elif law == 'commute' and len(leafs) >= 2:
                cands = [pstr(k) for k in leafs] + (['@' * (i + 1) + k for i, L in enumerate(reversed(meta['layers'])) for k in L] if WRAPPERS[meta['shape']][2] else [])       # @^i name exists in the i-th layer from the innermost
                if not meta['layers'] and WRAPPERS[meta['shape']][2] and not meta.get('commented') and R.random() < 0.5:
                    # seventh round: without a let, a scope-prefixed path that exists in the body addresses the body (F-37's rule, whatever one thinks of
                    # it, must at least be the same rule in either order and at every depth of the path)
                    sc_all = [k for k in leafs if all(IDENT.match(s_) for s_ in k)]
                    sc = [k for k in sc_all if explicit_path(text, k)]
                    if len(sc) < len(sc_all) and len(sc_all) >= 2 and R.random() < 0.5: known['F-53'] = known.get('F-53', 0) + 1; continue     # listed: a body path written in attrpath form is not "found", a let is created, and from then on scoped sets go to the let
                    cands = ['@' + pstr(k) for k in sc] if len(sc) >= 2 else cands
                if len(set(cands)) < 2: continue
                p, q_ = R.sample(sorted(set(cands)), 2)
                if p.lstrip('@').startswith(q_.lstrip('@') + '.') or q_.lstrip('@').startswith(p.lstrip('@') + '.'): continue
                v, w = R.choice(VALUES[:5]), R.choice(VALUES[:5])
                a = parse(text); r0 = apply(a, ('set', p, v)); ra = apply(nxt(a, r0), ('set', q_, w))
                b = parse(text); r0 = apply(b, ('set', q_, w)); rb = apply(nxt(b, r0), ('set', p, v))
                if ra[0] == 'ok' and rb[0] == 'ok' and ra[1] != rb[1]: bad('two sets on different existing paths do not commute', doc=text, ops=[['set', p, v], ['set', q_, w]], pq=ra[1], qp=rb[1])
                if ra[0] == 'ok' and rb[0] == 'ok' and p.startswith('@') != q_.startswith('@'):
                    # a scoped and a plain set of the same name address different bindings: both must be visible
                    lay = read_layers(ra[1]); tr = read_tree(ra[1])
                    sc, pl = (p, q_) if p.startswith('@') else (q_, p); sv, pv = (v, w) if p.startswith('@') else (w, v)
                    if lay is None or tr is None or not any(L.get(sc.lstrip('@')) == norm(sv) for L in lay):
                        bad('a scoped set did not write the let layer', doc=text, ops=[['set', p, v], ['set', q_, w]], out=ra[1])
        except Exception as e:
            bad('law check crashed: %s %s' % (type(e).__name__, e), doc=text)
        if len(samples) < 2: samples.append({'doc': text, 'law': law})

{'C08': run_C08, 'C05': lambda: (run_tree('C05'), run_scoped_exact(), run_named_targets()), 'C04': lambda: (run_tree('C04'), run_scoped_frame(), run_scoped_exact(), run_named_targets()), 'C06': lambda: (run_tree('C06'), multiline_values()), 'C09': lambda: (run_C09(), run_scoped_exact()), 'C19': run_C19}[prop]()
print(json.dumps({'evaluations': sum(dist.values()), 'distinct': len(dist), 'distribution': dist, 'violations': viol[:6], 'n_violations': len(viol),
                  'known_hits': known, 'samples': samples}, default=str))

(* C09 — scope selectors address exactly the intended let layer.
   Selector syntax over the GENERATED _split_scope_npath (Dyn.Gen, regenerated from cli/manipulations.py on this run);
   layer choice over the outermost-first layer list. *)
From Coq Require Import List Ascii Bool Arith Lia.
Import ListNotations.
From Dyn Require Import Gen ScopeSel.

(* k leading @ give depth k and the rest of the path; none gives "no selector"; only @ signs is the documented error *)
Theorem C09_selector_syntax : forall k rest, head_not_at rest ->
  _split_scope_npath (repeat AT k ++ rest) =
  match k with
  | O => Ok None
  | S _ => if isnil rest then Err 11 else Ok (Some (k, rest)) end.
Proof. exact split_scope_spec. Qed.
Print Assumptions C09_selector_syntax.

(* `layers[-depth]` on the outermost-first list is the depth-th layer counted from the innermost, for every number
   of layers and every depth that exists *)
Theorem C09_pick_innermost_first : forall (L : Type) (layers : list L) k, 1 <= k <= List.length layers ->
  pick layers k = nth_error (rev layers) (k - 1).
Proof. exact @pick_innermost_first. Qed.
Print Assumptions C09_pick_innermost_first.

(* ---- the let layers as a state machine (L.LayerModel, innermost first; tied to the code by the layers correspondence) ---- *)
From L Require Import LayerModel.

(* `@`^d name writes the d-th layer counted from the innermost and only it: the new value is read back there, every
   other name of that layer and every other layer read as before, the number of layers is unchanged *)
Theorem C09_index : forall ls d k v, 1 <= d <= length ls ->
  exists ls', sset ls d k v = Ok ls' /\ length ls' = length ls /\ sget ls' d k = Some v /\
    (forall k', LayerModel.streq k' k = false -> sget ls' d k' = sget ls d k') /\
    (forall d' k', d' <> d -> sget ls' d' k' = sget ls d' k').
Proof. exact sset_index. Qed.
Print Assumptions C09_index.

(* `set @name` creates exactly one innermost layer when none exists *)
Theorem C09_create : forall k v, sset [] 1 k v = Ok [[(k, v)]].
Proof. exact sset_create. Qed.
Print Assumptions C09_create.

(* deeper selectors fail when the layer does not exist *)
Theorem C09_missing : forall ls d k v, length ls < d -> ~ (ls = [] /\ d = 1) -> sset ls d k v = Err ValErr.
Proof. exact sset_missing. Qed.
Theorem C09_missing_rm : forall ls d k, length ls < d -> srm ls d k = Err ValErr.
Proof. exact srm_missing_layer. Qed.
Print Assumptions C09_missing.
Print Assumptions C09_missing_rm.

(* `rm` of the last binding of a layer removes that wrapper and only it: the layers inside it keep their index, the
   layers outside move in by one, all with their content *)
Theorem C09_prune : forall ls d k L, 1 <= d -> nth_error ls (d - 1) = Some L -> has_key L k = true -> remove_key L k = [] ->
  srm ls d k = Ok (delete_nth (d - 1) ls) /\ S (length (delete_nth (d - 1) ls)) = length ls /\
  (forall j, j < d - 1 -> nth_error (delete_nth (d - 1) ls) j = nth_error ls j) /\
  (forall j, d - 1 <= j -> nth_error (delete_nth (d - 1) ls) j = nth_error ls (S j)).
Proof. exact srm_prune. Qed.
Print Assumptions C09_prune.

(* `rm` of one of several bindings keeps the layer; other names and other layers are untouched *)
Theorem C09_rm_frame : forall ls d k L, 1 <= d -> nth_error ls (d - 1) = Some L -> has_key L k = true -> remove_key L k <> [] ->
  exists ls', srm ls d k = Ok ls' /\ length ls' = length ls /\
    (forall k', LayerModel.streq k' k = false -> sget ls' d k' = sget ls d k') /\
    (forall d' k', d' <> d -> sget ls' d' k' = sget ls d' k').
Proof. exact srm_keep. Qed.
Print Assumptions C09_rm_frame.

(* over any sequence of scoped operations no empty `let in` wrapper is ever left behind *)
Theorem C09_no_empty_layer : forall ops ls, nonempty_layers ls -> nonempty_layers (fold_left sstep ops ls).
Proof. exact srun_nonempty. Qed.
Print Assumptions C09_no_empty_layer.

(* ---- over the definitions REGENERATED on every run from cli/manipulations.py (tools/layers2v.py):
   collect = _collect_scope_layers, write = _write_scope_layers, pick_set / pick_rm = the layer selection ---- *)
From L Require Import LayerRec.
From Dyn Require Import LayersGen LayersGenProps.
(* the collected list is outermost first, innermost last, each layer with its own fields *)
Theorem C09_collect_order : forall e, wf e -> collect e = outer_of e :: s_stack e.
Proof. exact LayersGenProps.collect_order. Qed.
Print Assumptions C09_collect_order.
(* `@`^d selects the d-th layer counted from the innermost, deeper selectors are refused — for set and for rm *)
Theorem C09_pick_set : forall ls d, 1 <= d ->
  (d <= length ls -> exists i, pick_set ls d = Some i /\ nth_error ls i = nth_error (rev ls) (d - 1)) /\
  (length ls < d -> pick_set ls d = None).
Proof. exact LayersGenProps.pick_set_spec. Qed.
Print Assumptions C09_pick_set.
Theorem C09_pick_rm : forall ls d, 1 <= d ->
  (d <= length ls -> exists i, pick_rm ls d = Some i /\ nth_error ls i = nth_error (rev ls) (d - 1)) /\
  (length ls < d -> pick_rm ls d = None).
Proof. exact LayersGenProps.pick_rm_spec. Qed.
Print Assumptions C09_pick_rm.
(* writing the layers back loses nothing and confuses nothing: an edit of one collected layer, written back and
   collected again, shows exactly that edit; every other layer keeps all its fields and its position *)
Theorem C09_layers_never_confused : forall e i f, wf e -> (forall l, nonempty (l_scope l) = true -> nonempty (l_scope (f l)) = true) ->
  collect (write (upd i f (collect e))) = upd i f (collect e) /\
  forall j, j <> i -> nth_error (collect (write (upd i f (collect e)))) j = nth_error (collect e) j.
Proof. exact LayersGenProps.edit_one_layer. Qed.
Print Assumptions C09_layers_never_confused.
Theorem C09_write_collect : forall e, wf e -> write (collect e) = e.
Proof. exact LayersGenProps.write_collect. Qed.
Print Assumptions C09_write_collect.

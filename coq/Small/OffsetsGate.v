(* Design spike for C07 (pass-through half, finding F-01b): on a syntax error the document is one raw expression
   holding root.text, i.e. the slice [root.start_byte, root.end_byte) of the source; rebuild returns it. *)
From Coq Require Import List Ascii Arith Lia.
Import ListNotations.
From Small Require Import Offsets.

Definition passthrough (src : str) (root_start root_end : nat) : str := slice src root_start root_end.
Theorem C07_passthrough_partial src : passthrough src 0 (length src) = src.
Proof. unfold passthrough, slice. rewrite Nat.sub_0_r. cbn [skipn]. apply firstn_all. Qed.
(* tree-sitter's root node starts at the first token: with leading whitespace the text is not reproduced *)
Example C07_passthrough_full_refuted :
  let src := [LF; ch 123; sp; ch 97; sp; ch 61; sp; ch 125] in      (* "\n{ a = }" : root spans [1, 8) *)
  passthrough src 1 8 <> src.
Proof. cbv. discriminate. Qed.
Print Assumptions C07_passthrough_partial.

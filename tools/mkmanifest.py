"""(re)write MANIFEST.json from the table below; properties without a check are listed under not_applicable"""
import json, os
V = os.path.dirname(os.path.dirname(os.path.abspath(__file__)))
ALL = ['C%02d' % i for i in range(1, 21)]
CHECKS = {
 'C16': dict(technique='Coq proof over an IR regenerated from cli/main.py (cli2v translator), for every library behaviour + subprocess correspondence',
             text='C16_test, C16_set, C16_rm, C16_unknown, C16_terminate hold for every library behaviour, document, path and value over the match arms regenerated from cli/main.py on every run and interpreted by Cli/CliIR.v; the real CLI (both channels) is compared with the interpreted arms inside Coq and the property is stated directly against the observations.',
             note='trusted: Coq kernel, cli2v translator, the Python facts written into the IR interpreter (print, uncaught exception => exit 1, evaluation order); argparse and the two input channels are observed, not modelled (finding F-28 lives there)', ref='6 C16'),
 'C08': dict(technique='Coq proof by invariant over operation scripts on a hand-written heap model of attribute-set edits + in-Coq correspondence after every call',
             text='C08_rm_atomic, C08_set_atomic, C08_parsed (every parsed document, every script, every refused operation: the whole state — heap, values and attrpath_order lists, flags — is identical afterwards), C08_history (a script equals its successful sub-script) and C08_error_class are proved over the failure-with-state model in which a failing call returns the state as mutated so far; the model is compared with set_value/remove_value after EVERY call (also refused ones) inside Coq; scoped paths, wrappers and hidden object state are searched with object-graph snapshots and replay-without-the-failed-operations.',
             note='trusted: Coq kernel, the hand-written edit heap model (identifier paths, no scope selectors, atom values); modelled not verified: cli/manipulations.py, expressions/set.py; finding F-08 (ResolutionError escapes) listed', ref='6 C08'),
 'C04': dict(technique='Coq frame theorems on the edit heap model (leaf overwrite, root insertion in every reachable state) + in-Coq correspondence + frame search',
             text='C04_leaf (overwriting an existing leaf: the printed document is the old one with exactly that leaf text replaced, for every document and path) and C04_fresh_root_reachable (a fresh key appends exactly one entry, everything else prints as before, in every state reachable from a parsed document by any script) are proved on the model; removal, nested insertion and the byte-level text are covered by the correspondence (printed structure after every op) and the frame search (other bindings, their order and comments unchanged).',
             note='partial: theorems are about the printed structure (names, order, nesting, value texts) of the heap model, not yet about bytes; rm and nested insertion are correspondence/search only', ref='6 C04'),
 'C05': dict(technique='Coq read-back and insertion theorems on the edit heap model, refutation witness for lost edits (F-23) + in-Coq correspondence + attribute-tree search',
             text='C05_leaf_readback, C05_new_binding_last proved for every parsed document; C05_success_visible_full_refuted exhibits finding F-23 inside the faithful model; the attribute tree decoded independently from the emitted text is compared with the requested update after every edit, refusals are judged against the documented reasons.',
             note='partial: refinement to a finite-map spec is proved only for leaf overwrite and root insertion; findings F-06 F-07 F-08 F-23 listed', ref='6 C05'),
 'C19': dict(technique='Coq state-equality theorem for repeated edits on the heap model + law search on canonical documents',
             text='C19_repeat_leaf (the same set twice = once, as equality of states) proved; set/rm inverse, rm/set restoration and commutation are checked as laws on generated canonical documents with wrappers and let layers (search, labelled test) and through the in-Coq edit correspondence.',
             note='partial: only repeatability is a theorem; the other three laws are tests', ref='6 C19'),
 'C14': dict(technique='Coq dictionary laws on the heap model + refutation witness of text/mapping coherence (F-17) + in-Coq mapping correspondence',
             text='C14_get_after_set, C14_get_other_after_set proved for every well-formed state, key and value; C14_coherent_full_refuted exhibits finding F-17 in the faithful model; getitem/set_setitem/set_delitem are compared with src[k] operations after every call inside Coq (attrpath documents included, the model reproduces the stale text); nested sets and the scope mapping are searched.',
             note='partial: delete law and nested/scope mappings are correspondence/search only; F-17 listed', ref='6 C14'),
 'C09': dict(technique='Coq proof over the regenerated selector parser (py2v) and the layer-index arithmetic + scoped-edit search against let chains decoded from the output',
             text='C09_selector_syntax (k leading @ = depth k, for all k and paths, over _split_scope_npath regenerated from source) and C09_pick_innermost_first (layers[-k] is the k-th layer from the innermost) are proved; creation, refusal of missing layers, pruning and the frame are checked on sequences of scoped set/rm over 0-3 layers (duplicated layers included) by decoding the let chain from the emitted text.',
             note='partial: collect/write-back of layers is search only; wrappers between let and set are findings F-06/F-27', ref='6 C09'),
 'C17': dict(technique='Coq proof over a hand-written path/file-system model (abstract directory tree) + in-Coq correspondence on generated layouts',
             text='C17_relative, C17_cwd_independent, C17_absolute, C17_chain (any number of hops, by induction) and C17_errors hold for every directory tree without symlinks, every working directory and every spelling of the entry path; the model (pathlib path algebra, NixPath.resolved_path, physical lookup) is tied to the code by running parse_file(entry)[next]...[id] on generated layouts under varying cwd/spelling and comparing with the model inside Coq, and the property is also stated directly with os.path.realpath.',
             note='trusted: Coq kernel, the hand-written model of pathlib/OS lookup (Small/PathRes.v, PathFS.v); modelled, not verified: NixPath.resolved_path, Import._follow_import, parse_file; symlinks and case-insensitive file systems are outside the model', ref='6 C17'),
 'C12': dict(technique='Coq proof over Gallina regenerated from the Python source (py2v translator) + exhaustive in-Coq function correspondence',
             text='Theorems C12_addressable, C12_written, C12_split_written, C12_written_injective, C12_accepted_wellformed, C12_malformed hold for ALL strings over the definitions regenerated from /repo on every run (_parse_npath, _format_attr_name, _escape_nix_string, _split_attrpath, identifier regex, keyword table) against a hand-written spec of Nix\'s lexer; the one-spelling clause is refuted by theorem (finding F-13, listed). A code change to these functions changes the generated model, so a broken property breaks a proof script.',
             note='trusted: Coq kernel, the py2v translator (validated each run by exhaustive short-string correspondence incl. raise sites), Lex/NixLex.v+NixAttr.v as the meaning of "Nix reads"; binding lookup by written name is covered by the edit model (C05/C19) and the names-roundtrip search, not by these theorems', ref='6 C12'),
}
NA_REASON = 'check not built yet in this session (design in DESIGN.md section 6); will be claimed when its theorems and tie are wired'
m = {
 'version': 1,
 'setup_cmd': 'cd /verif && /venv/bin/python -W ignore tools/setup.py',
 'hooks': {'guard': 'NIMA_VERIF', 'enable': 'no source hooks are needed: instrumentation (rebuild-call counting, object-graph snapshots, registry inspection) wraps the library from the harness',
           'baseline_off_cmd': 'cd /repo && /venv/bin/python -m pytest -ra -q -p no:cacheprovider --timeout=900 --continue-on-collection-errors',
           'source_commits': [], 'add_only': True},
 'engines': [{'name': 'coq-proof', 'path': 'coq/', 'serves_properties': sorted(CHECKS), 'kind_free_text': 'Coq 8.16.1 development: static models/lemmas (make), per-run generated models + Props/Cxx.v'},
             {'name': 'py2v', 'path': 'tools/py2v.py', 'serves_properties': ['C12', 'C09', 'C13'], 'kind_free_text': 'fail-closed Python ast -> Gallina translator'},
             {'name': 'correspondence', 'path': 'tools/suites/', 'serves_properties': sorted(CHECKS), 'kind_free_text': 'implementation vs model on the same inputs, compared inside Coq by vm_compute'},
             {'name': 'search', 'path': 'tools/oracles/', 'serves_properties': sorted(CHECKS), 'kind_free_text': 'property oracles against the implementation (counter-example search; never a proof)'}],
 'checks': [], 'not_applicable': [],
 'notes': 'See DESIGN.md. known_findings.json lists recorded defects (KNOWN-FINDING lines) and fixed: entries.',
}
for p in ALL:
    if p in CHECKS:
        c = CHECKS[p]
        m['checks'].append({'property_id': p, 'quick_cmd': './check %s --tier quick' % p, 'thorough_cmd': './check %s --tier thorough' % p,
                            'evidence_file': 'evidence/%s.json' % p, 'replay_cmd_template': './check %s --replay {path}' % p, 'engine': 'coq-proof',
                            'level_claimed': {'category': 'proof', 'text': c['text'], 'design_ref': c['ref']}, 'level_note': c['note'], 'technique': c['technique']})
    else:
        m['not_applicable'].append({'property_id': p, 'reason': NA_REASON})
json.dump(m, open(os.path.join(V, 'MANIFEST.json'), 'w'), indent=1)
print('checks:', [c['property_id'] for c in m['checks']])

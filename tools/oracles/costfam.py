"""the nesting families of the cost check (C20): one wrapper applied n times around a leaf"""
FAM = {
 'set':     lambda b: '{ a = %s; }' % b,
 'setml':   lambda b: '{\n  a = %s;\n}' % b.replace('\n', '\n  '),
 'list':    lambda b: '[ %s ]' % b,
 'listml':  lambda b: '[\n  %s\n]' % b.replace('\n', '\n  '),
 'with':    lambda b: 'with a; %s' % b,
 'lam':     lambda b: 'a: %s' % b,
 'formals': lambda b: '{ a }: %s' % b,
 'let':     lambda b: 'let a = 1; in %s' % b,
 'paren':   lambda b: '(%s)' % b,
 'if':      lambda b: 'if c then %s else y' % b,
 'assert':  lambda b: 'assert c; %s' % b,
 'binop':   lambda b: '(%s) + y' % b,
 'update':  lambda b: '(%s) // y' % b,
 'call':    lambda b: 'f (%s)' % b,
 'not':     lambda b: '!(%s)' % b,
 'select':  lambda b: '(%s).a' % b,
 'inherit': lambda b: '{ inherit (%s) a; }' % b,
}
LEAVES = {'atom': 'x', 'mlset': '{\n  a = 1;\n}'}

import sys
sys.path.insert(0,'/repo')
from nix_manipulator import parse
from nix_manipulator.cli.manipulations import set_value, remove_value
def ed(s, op, *a):
    try:
        src = parse(s)
        r = (set_value if op=='set' else remove_value)(src, *a)
    except Exception as e:
        return f"EXC {type(e).__name__}: {e}"
    return r
T = [
 ("f { a = 1; }", 'set', '@x', '2'),
 ("{ p }: let u = 1; in with p; { a = 1; }", 'set', 'a', '2'),
 ("{ foo-bar = 1; }", 'set', '"foo-bar"', '2'),
 ('{ "a" = 1; }', 'set', 'a', '2'),
 ("{ a.b = 1; c = 2; }", 'set', 'a.c', '3'),
 ("{ a.b = 1; c = 2; }", 'rm', 'a.b'),
 ("{ a.b = 1; c = 2; }", 'set', 'a', '3'),
 ("{\n  a = 1;\n}\n", 'set', 'b', '2'),
 ("{\n  a = 1;\n}\n", 'set', '@b', '2'),
 ("let\n  b = 2;\nin\n{\n  a = 1;\n}\n", 'rm', '@b'),
 ("{ a = 1; }", 'set', 'a\n', '2'),
 ("{ a = 1; }", 'set', 'b', '1 2 +'),
 ("{ a = 1; }", 'set', 'b', '1 # c'),
 ("{ a = 1; }", 'set', 'b', ''),
 ("{ a = 1; }", 'set', 'b', '1\n2'),
 ("{ a = b; b = 1; }", 'set', 'a', '2'),
 ("let b = 1; in { a = b; }", 'set', 'a', '2'),
 ("{ a = ; }", 'set', 'a', '2'),
]
for t in T:
    print(t, '->', repr(ed(*t)))

(* Design spike for C15 (purity half): a small object heap with allocation, shallow copy, field store and list
   mutation; the frame theorem behind the effect discipline; and the classic aliasing slip as a counter-example. *)
From Coq Require Import List Arith Lia Bool.
Import ListNotations.

(* objects: records (field name -> value) and lists; values are integers or references *)
Inductive val := VInt (n : nat) | VRef (o : nat).
Inductive obj := ORec (fields : list (nat * val)) | OList (items : list val).
Record heap := { cells : list (nat * obj); nxt : nat }.
Fixpoint lookup (c : list (nat * obj)) (o : nat) : option obj :=
  match c with [] => None | (k, x) :: t => if k =? o then Some x else lookup t o end.
Fixpoint update (c : list (nat * obj)) (o : nat) (x : obj) : list (nat * obj) :=
  match c with [] => [] | (k, y) :: t => if k =? o then (k, x) :: t else (k, y) :: update t o x end.
Definition get (h : heap) (o : nat) : option obj := lookup (cells h) o.
Definition wf (h : heap) : Prop := forall k x, In (k, x) (cells h) -> k < nxt h.

Fixpoint set_field (fs : list (nat * val)) (f : nat) (v : val) : list (nat * val) :=
  match fs with [] => [(f, v)] | (g, w) :: t => if g =? f then (f, v) :: t else (g, w) :: set_field t f v end.

(* the operations a rebuild method can perform on the heap *)
Inductive op :=
| Alloc (x : obj)                    (* constructor call, literal, comprehension *)
| Copy (src : nat)                   (* model_copy / copy.copy / list(...) : a new object with the SAME field values *)
| Store (o f : nat) (v : val)        (* o.f = v *)
| Append (l : nat) (v : val).        (* l.append(v) / extend / insert ... on the list object l *)

Definition alloc (h : heap) (x : obj) : heap := {| cells := (nxt h, x) :: cells h; nxt := S (nxt h) |}.
Definition step (h : heap) (p : op) : heap :=
  match p with
  | Alloc x => alloc h x
  | Copy src => match get h src with Some x => alloc h x | None => h end
  | Store o f v => match get h o with Some (ORec fs) => {| cells := update (cells h) o (ORec (set_field fs f v)); nxt := nxt h |} | _ => h end
  | Append l v => match get h l with Some (OList xs) => {| cells := update (cells h) l (OList (xs ++ [v])); nxt := nxt h |} | _ => h end
  end.
Definition run (h : heap) (ps : list op) : heap := fold_left step ps h.

(* the discipline: every write targets an object allocated during the run *)
Definition site_ok (n0 : nat) (p : op) : bool :=
  match p with Store o _ _ => n0 <=? o | Append l _ => n0 <=? l | _ => true end.

Lemma lookup_update_other c o x k : k <> o -> lookup (update c o x) k = lookup c k.
Proof.
  intros Hn. induction c as [|[j y] t IH]; [reflexivity|]. cbn [update]. destruct (j =? o) eqn:E.
  - cbn [lookup]. apply Nat.eqb_eq in E. subst j. destruct (o =? k) eqn:E2; [apply Nat.eqb_eq in E2; congruence|reflexivity].
  - cbn [lookup]. destruct (j =? k); [reflexivity|exact IH].
Qed.
Lemma lookup_fresh c n o : (forall k x, In (k, x) c -> k < n) -> n <= o -> lookup c o = None.
Proof.
  intros H Hle. induction c as [|[j y] t IH]; [reflexivity|]. cbn [lookup].
  destruct (j =? o) eqn:E; [apply Nat.eqb_eq in E; subst; pose proof (H o y (or_introl eq_refl)); lia|].
  apply IH. intros k x Hin. apply (H k x). now right.
Qed.

Lemma step_frame n0 h p : n0 <= nxt h -> site_ok n0 p = true ->
  n0 <= nxt (step h p) /\ forall o, o < n0 -> get (step h p) o = get h o.
Proof.
  intros Hn Hs. destruct p as [x|src|o f v|l v]; cbn [step].
  - split; [cbn; lia|]. intros o Ho. unfold get, alloc. cbn [cells lookup].
    destruct (nxt h =? o) eqn:E; [apply Nat.eqb_eq in E; lia|reflexivity].
  - destruct (get h src) as [x|]; [|split; [exact Hn|reflexivity]].
    split; [cbn; lia|]. intros o Ho. unfold get, alloc. cbn [cells lookup].
    destruct (nxt h =? o) eqn:E; [apply Nat.eqb_eq in E; lia|reflexivity].
  - cbn [site_ok] in Hs. apply Nat.leb_le in Hs.
    destruct (get h o) as [[fs|xs]|]; try (split; [exact Hn|reflexivity]).
    split; [exact Hn|]. intros k Hk. unfold get. cbn [cells]. apply lookup_update_other. lia.
  - cbn [site_ok] in Hs. apply Nat.leb_le in Hs.
    destruct (get h l) as [[fs|xs]|]; try (split; [exact Hn|reflexivity]).
    split; [exact Hn|]. intros k Hk. unfold get. cbn [cells]. apply lookup_update_other. lia.
Qed.

(* frame theorem: a disciplined run leaves every pre-existing object exactly as it was, for all heaps and runs *)
Theorem frame_fresh_writes : forall ps h, forallb (site_ok (nxt h)) ps = true ->
  forall o, o < nxt h -> get (run h ps) o = get h o.
Proof.
  intros ps h. generalize (Nat.le_refl (nxt h)). generalize (nxt h) at 1 3 4 as n0.
  intros n0. revert h. induction ps as [|p ps IH]; intros h Hn Hall o Ho; [reflexivity|].
  cbn [forallb] in Hall. apply andb_prop in Hall. destruct Hall as [Hp Hps].
  destruct (step_frame n0 h p Hn Hp) as [Hn' Hf]. cbn [run fold_left]. fold (run (step h p) ps).
  rewrite (IH (step h p) Hn' Hps o Ho). apply Hf, Ho.
Qed.
Print Assumptions frame_fresh_writes.

(* the aliasing slip: copy an expression (shallow), then append to the copy's `after` list.
   object 0 = the list [1]; object 1 = the expression {after -> ref 0}.  The run copies object 1 and appends to
   the list the copy's field points to — which is object 0, an old object: the discipline rejects the site,
   and indeed the original's list has changed. *)
Example alias_slip :
  let h0 := {| cells := [(1, ORec [(7, VRef 0)]); (0, OList [VInt 1])]; nxt := 2 |} in
  let ps := [Copy 1; Append 0 (VInt 2)] in
  forallb (site_ok (nxt h0)) ps = false /\ get (run h0 ps) 0 = Some (OList [VInt 1; VInt 2]).
Proof. split; reflexivity. Qed.
(* the disciplined version: give the copy a fresh list first *)
Example fresh_then_append :
  let h0 := {| cells := [(1, ORec [(7, VRef 0)]); (0, OList [VInt 1])]; nxt := 2 |} in
  let ps := [Copy 1; Copy 0; Store 2 7 (VRef 3); Append 3 (VInt 2)] in
  forallb (site_ok (nxt h0)) ps = true /\ get (run h0 ps) 0 = get h0 0 /\ get (run h0 ps) 1 = get h0 1
  /\ get (run h0 ps) 3 = Some (OList [VInt 1; VInt 2]).
Proof. repeat split; reflexivity. Qed.

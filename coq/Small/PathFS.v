(* C17: import chains over the path algebra of PathRes.v, and a concrete directory-tree instance that the
   correspondence suite evaluates against the implementation. *)
From Coq Require Import List Ascii String Bool Arith Lia.
Import ListNotations.
From Small Require Import PathRes.

(* ---- pathlib: text -> (absolute?, parts): split at '/', drop '' and '.', keep '..' ---- *)
Definition slash : ascii := ascii_of_nat 47.  Definition dotc : ascii := ascii_of_nat 46.
Fixpoint split_slash (s : str) (cur : str) : list str :=
  match s with
  | [] => [cur]
  | x :: r => if Ascii.eqb x slash then cur :: split_slash r [] else split_slash r (cur ++ [x])
  end.
Fixpoint str_eqb (a b : str) : bool :=
  match a, b with [], [] => true | x :: a', y :: b' => Ascii.eqb x y && str_eqb a' b' | _, _ => false end.
Definition to_part (n : str) : list part :=
  if str_eqb n [] || str_eqb n [dotc] then [] else if str_eqb n [dotc; dotc] then [Up] else [Name n].
Definition parse_path (s : str) : path :=
  {| absolute := match s with x :: _ => Ascii.eqb x slash | [] => false end; parts := flat_map to_part (split_slash s []) |}.

(* what the argument of `import` in a file is *)
Inductive arg := ALit (lit : str) | AAngle | ANonPath.
Inductive outcome := Reached (id : nat) | OSError | ValueError | TypeError.

Section Chain.
  Variable dir : Type.
  Variable root : dir.
  Variable up : dir -> dir.
  Variable child : dir -> str -> option dir.
  Variable file : dir -> str -> option (nat * arg).       (* a regular file: its id and its import argument *)

  Definition open_f (cwd : dir) (p : path) : option (nat * arg) :=
    match locate_dir dir root up child cwd p, last (parts p) Up with
    | Some d, Name n => file d n
    | _, _ => None
    end.
  (* parse_file(entry)["next"]…["next"]["id"] with k hops *)
  Fixpoint follow (k : nat) (cwd : dir) (sp : path) : outcome :=
    match open_f cwd sp with
    | None => OSError
    | Some (id, a) =>
      match k with
      | O => Reached id
      | S k' => match a with
                | ALit lit => follow k' cwd (resolved_path sp (parse_path lit))
                | AAngle => ValueError
                | ANonPath => TypeError
                end
      end
    end.

  Definition same_file (cwd1 : dir) (sp1 : path) (cwd2 : dir) (sp2 : path) : Prop :=
    locate_dir dir root up child cwd1 sp1 = locate_dir dir root up child cwd2 sp2 /\ last (parts sp1) Up = last (parts sp2) Up.
  Hypothesis lits_nonempty : forall d n id lit, file d n = Some (id, ALit lit) -> parts (parse_path lit) <> [].

  Lemma open_same cwd1 sp1 cwd2 sp2 : same_file cwd1 sp1 cwd2 sp2 -> open_f cwd1 sp1 = open_f cwd2 sp2.
  Proof. intros [H1 H2]. unfold open_f. rewrite H1, H2. reflexivity. Qed.

  Lemma hop_same cwd1 sp1 cwd2 sp2 lit : parts lit <> [] -> same_file cwd1 sp1 cwd2 sp2 ->
    same_file cwd1 (resolved_path sp1 lit) cwd2 (resolved_path sp2 lit).
  Proof.
    intros Hne [H1 H2]. unfold same_file, resolved_path. destruct (absolute lit) eqn:Ha; [unfold locate_dir, start; rewrite Ha; split; reflexivity|].
    unfold join. rewrite Ha. cbn [absolute parts parent]. unfold locate_dir, start in *. cbn [absolute parts].
    rewrite !removelast_app by exact Hne. rewrite <- !(walk_app up child). unfold walk in *.
    rewrite H1. split; [reflexivity|]. rewrite !last_app_ne by exact Hne. reflexivity.
  Qed.

  (* the whole chain depends only on WHICH file the entry path denotes, not on the working directory or spelling *)
  Theorem C17_chain : forall k cwd1 sp1 cwd2 sp2, same_file cwd1 sp1 cwd2 sp2 -> follow k cwd1 sp1 = follow k cwd2 sp2.
  Proof.
    induction k as [|k IH]; intros cwd1 sp1 cwd2 sp2 H; cbn [follow]; rewrite (open_same _ _ _ _ H).
    - reflexivity.
    - destruct (open_f cwd2 sp2) as [[id a]|] eqn:E; [|reflexivity]. destruct a as [lit| |]; try reflexivity.
      apply IH. apply hop_same; [|exact H].
      unfold open_f in E. destruct (locate_dir dir root up child cwd2 sp2) as [d|]; [|discriminate].
      destruct (last (parts sp2) Up) as [|n]; [discriminate|]. apply (lits_nonempty d n id lit E).
  Qed.

  (* failure classes: a non-path argument is TypeError, an angle-bracket path ValueError, a missing file an OS error —
     never some other file *)
  Theorem C17_errors cwd sp id a k : open_f cwd sp = Some (id, a) ->
    match a with
    | AAngle => follow (S k) cwd sp = ValueError
    | ANonPath => follow (S k) cwd sp = TypeError
    | ALit lit => open_f cwd (resolved_path sp (parse_path lit)) = None -> follow (S k) cwd sp = OSError
    end.
  Proof.
    intros H. destruct a as [lit| |]; cbn [follow]; rewrite H; try reflexivity.
    intros Hn. destruct k; cbn [follow]; rewrite Hn; reflexivity.
  Qed.
End Chain.
Print Assumptions C17_chain.
Print Assumptions C17_errors.

(* ---- concrete instance for the correspondence: directories are name lists from the root ---- *)
Definition cdir := list str.
Fixpoint dir_eqb (a b : cdir) : bool :=
  match a, b with [], [] => true | x :: a', y :: b' => str_eqb x y && dir_eqb a' b' | _, _ => false end.
Record fsys := { dirs : list cdir; files : list (cdir * str * (nat * arg)) }.
Definition c_child (f : fsys) (d : cdir) (n : str) : option cdir :=
  if existsb (dir_eqb (d ++ [n])) (dirs f) then Some (d ++ [n]) else None.
Definition c_file (f : fsys) (d : cdir) (n : str) : option (nat * arg) :=
  match find (fun e => dir_eqb (fst (fst e)) d && str_eqb (snd (fst e)) n) (files f) with Some e => Some (snd e) | None => None end.
Definition c_follow (f : fsys) (k : nat) (cwd : cdir) (entry : str) : outcome :=
  follow cdir [] (@removelast str) (c_child f) (c_file f) k cwd (parse_path entry).

(* Proof spike, part 2: named line function and unfolding equations of [spec]. *)
From Coq Require Import List Ascii String Bool Arith Lia.
Import ListNotations.
From F0 Require Import F0s Specs P1.
Open Scope char_scope.

Fixpoint seq_lines (core : cnode -> str) (need_bind : bool) (ind : nat)
         (l : list (str * cnode)) (prev : option cnode) (seen_item : bool) : str :=
  match l with
  | [] => []
  | (g, n) :: rest =>
      if is_cmt n then
        let inline_ok := match prev with
                         | Some p => (if need_bind then is_bind p else true) && negb (has_nl g) && seen_item
                         | None => false end in
        (if inline_ok then " " :: spec_comment_inline (craw n)
         else LF :: blank g ++ spec_comment (craw n) ind)
        ++ seq_lines core need_bind ind rest (Some n) seen_item
      else LF :: blank g ++ sp ind ++ core n ++ seq_lines core need_bind ind rest (Some n) true
  end.

Lemma spec_list_multiline body cg indent :
  body <> [] -> has_nl (ctext (CList body cg)) = true ->
  spec (CList body cg) indent =
  "[" :: seq_lines (fun n => spec n (indent + 2)) false (indent + 2) body None false
      ++ LF :: blank cg ++ sp indent ++ ["]"].
Proof.
  intros Hb Hnl. cbn [spec]. rewrite Hnl. cbn [negb].
  match goal with
  | |- context [?F body None false] =>
      assert (HF : forall l p sn, F l p sn = seq_lines (fun n => spec n (indent + 2)) false (indent + 2) l p sn)
  end.
  { induction l as [|[g n] r IH]; intros p sn; [reflexivity|].
    cbn [seq_lines]. destruct n; cbn [is_cmt craw]; rewrite ?IH; try reflexivity. }
  rewrite HF. destruct body; [congruence|reflexivity].
Qed.
Print Assumptions spec_list_multiline.

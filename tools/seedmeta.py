"""usage: seedmeta.py NAME PROPERTY 'needs' 'caught_by' 'ran'"""
import json, sys
name, prop, needs, caught, ran = sys.argv[1:6]
json.dump({'property': prop, 'needs_to_manifest': needs, 'detected_by': caught, 'what_was_run': ran,
           'confirmed': 'tools/confirm_seed.sh: fresh scratch worktree of /repo HEAD; demo.py exit 0 without the patch, exit 1 with it; pinned suite still 340 passed with the patch'},
          open('/verif/seeded/%s/meta.json' % name, 'w'), indent=1)

(* C14 — dictionary laws of the mapping API on the edit heap model (top-level set), and the text/mapping
   disagreement of finding F-17/F-23 as the refutation witness of the coherence clause. *)
From Coq Require Import List Ascii String Bool Arith.
Import ListNotations.
From E Require Import EditModel EditRun EditProofs EditLaws EditFindings.

(* after m[k] = v a lookup of k returns v — overwrite and append branch alike *)
Theorem C14_get_after_set : forall s k v, heap_ok s -> vals_ok s -> getitem (set_setitem s SRoot k v) SRoot k = Some v.
Proof. exact EditLaws.get_after_set. Qed.
Print Assumptions C14_get_after_set.

(* every other key reads as before *)
Theorem C14_get_other_after_set : forall s k v, heap_ok s -> vals_ok s ->
  forall k', streq k' k = false -> getitem (set_setitem s SRoot k v) SRoot k' = getitem s SRoot k'.
Proof. exact EditLaws.get_other_after_set. Qed.
Print Assumptions C14_get_other_after_set.

(* FULL coherence clause "the rebuilt text shows exactly the bindings the mapping reports": REFUTED on the faithful
   model (finding F-17): on { a.b = 1; c = 2; } `del m["a"]` succeeds, the mapping no longer has `a`, and the printed
   document is unchanged — text and mapping disagree *)
From E Require Import MapRun.
Definition C14_coherent_full : Prop :=
  forall d st0 k, parse_doc d = Ok st0 -> snd (set_delitem st0 SRoot k) = Ok tt ->
  tree_eqb 100 (view (fst (set_delitem st0 SRoot k))) (view st0) = false.
Theorem C14_coherent_full_refuted : ~ C14_coherent_full.
Proof.
  intros H. destruct (parse_doc d17) as [st0|e] eqn:E; [|vm_compute in E; discriminate].
  specialize (H d17 st0 (s "a") E). vm_compute in E. injection E as <-. vm_compute in H. specialize (H eq_refl). discriminate.
Qed.
Print Assumptions C14_coherent_full_refuted.

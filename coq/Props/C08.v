(* C08 — a rejected edit is loud and leaves the document exactly as it was.
   Model: E.EditModel — a heap of binding objects, the root set's `values` and `attrpath_order` lists, and
   set_value / remove_value (m_set / m_rm) written in the failure-with-state style: a failing call returns the state
   AS MUTATED SO FAR, and checks and mutations happen in the code's order, so atomicity is a real statement.
   Tied to the code by the `edit` correspondence (view after every call, also the refused ones). *)
From Coq Require Import List Ascii String Bool Arith.
Import ListNotations.
From E Require Import EditModel EditProofs EditParse EditHistory.

Theorem C08_rm_atomic : forall s segs, failed (snd (m_rm s segs)) -> fst (m_rm s segs) = s.
Proof. exact rm_atomic. Qed.
Print Assumptions C08_rm_atomic.

Theorem C08_set_atomic : forall s segs v, heap_ok s -> failed (snd (m_set s segs v)) -> fst (m_set s segs v) = s.
Proof. exact set_atomic. Qed.
Print Assumptions C08_set_atomic.

(* for every parsed document, every script of edits and every refused operation: the state (heap, order lists,
   flags — not just the printed text) is identical to the one before the attempt *)
Theorem C08_parsed : forall d s0 ops o, parse_doc d = Ok s0 ->
  failed (snd (estep (erun s0 ops) o)) -> fst (estep (erun s0 ops) o) = erun s0 ops.
Proof. exact EditParse.C08_parsed. Qed.
Print Assumptions C08_parsed.

(* later edits behave as if the failed ones had never happened: a script equals its successful sub-script *)
Theorem C08_history : forall d s0 ops, parse_doc d = Ok s0 -> erun s0 ops = erun_skip s0 ops.
Proof. exact history_skip_parsed. Qed.
Print Assumptions C08_history.

(* loud: the only failure values of the model are the two documented classes *)
Theorem C08_error_class : forall (e : err), e = KeyErr \/ e = ValErr.
Proof. intros [|]; [left|right]; reflexivity. Qed.
Print Assumptions C08_error_class.

(* non-vacuity: a parsed document on which an edit is in fact refused *)
Example C08_nonvacuous :
  match parse_doc (ISet true [([["a"%char]; ["b"%char]], IAtom ["1"%char]); ([["c"%char]], ISet false [])]) with
  | Ok s => heap_okb s = true /\ failed (snd (m_set s [["a"%char]; ["b"%char]; ["x"%char]] (VAt ["2"%char])))
  | Err _ => False end.
Proof. exact nonvacuous. Qed.
Print Assumptions C08_nonvacuous.

(* the model's binding look-ups are the source's: find_by_name / find_named / find_root of the edit heap model equal
   _find_binding / _find_named_binding / _find_attrpath_root REGENERATED from cli/manipulations.py on every run *)
From Dyn Require Import FindGen FindProps.
Theorem C08_lookup_is_source_lookup : forall s ids key nested,
  _find_binding nat (fun _ => true) (name_of s) ids key = find_by_name s ids key /\
  _find_named_binding nat (fun _ => true) (name_of s) (nested_of s) ids key nested = find_named s ids key nested /\
  _find_attrpath_root nat (fun _ => true) (name_of s) (nested_of s) ids key = find_root s ids key.
Proof. exact (fun s ids key nested => conj (find_binding_refines s ids key) (conj (find_named_refines s ids key nested) (find_root_refines s ids key))). Qed.
Print Assumptions C08_lookup_is_source_lookup.

(* through explicit nested sets (E.EditDeep, mirrors the repair 99873d2): a refused removal leaves the whole state — heap, root and every inner set
   the path was re-targeted at — exactly as it was, for every fuel, state and path *)
From E Require Import EditDeep.
Theorem C08_rm_atomic_deep : forall f s segs, failed (snd (m_rm_deep f s segs)) -> fst (m_rm_deep f s segs) = s.
Proof. exact rm_deep_atomic. Qed.
Print Assumptions C08_rm_atomic_deep.

(* refusals of the regenerated wrapper traversal (tools/target2v.py) are ValueError and leave the context store as it was: an empty source, several
   top-level expressions, a top-level expression of a class the traversal does not look through *)
From Dyn Require Import TargetGen TargetProps.
Close Scope string_scope. Open Scope list_scope.
Theorem C08_target_refuses_empty : forall (w : world) fuel s, target_top w fuel [] s = (RErrV, s).
Proof. exact target_top_refuses_empty. Qed.
Print Assumptions C08_target_refuses_empty.
Theorem C08_target_refuses_several : forall (w : world) fuel a b l s, target_top w fuel (a :: b :: l) s = (RErrV, s).
Proof. exact target_top_refuses_several. Qed.
Print Assumptions C08_target_refuses_several.
Theorem C08_target_refuses_other : forall (w : world) f t st c,
  w_cls w t = COther -> w_scopes w t st = RVal c -> target_top w (S f) [t] ([], st) = (RErrV, ([t], st)).
Proof. exact target_top_refuses_other. Qed.
Print Assumptions C08_target_refuses_other.

import sys, random
sys.path.insert(0,'/repo')
from nix_manipulator import parse
R = random.Random(int(sys.argv[1]) if len(sys.argv)>1 else 0)
IDS = ['a','b','foo','bar_1',"x'",'pname','version','meta','lib']
def ident(): return R.choice(IDS)
def atom():
    if R.random()<0.12:
        return R.choice(['"a ${toString x} b"', "''\n      multi\n      line ${x}\n    ''", '0042', '1.5', '"q\\"uote"', '<nixpkgs>', '~/x', '/abs/p'])
    k = R.randrange(7)
    return [lambda: str(R.randrange(1000)), lambda: '"s%d"'%R.randrange(9), ident, lambda:'true', lambda:'null',
            lambda:'./p/%s.nix'%ident().replace("'",''), lambda: 'pkgs.'+ident()][k]()
def comment(ind):
    k = R.randrange(10)
    if k<6: return ' '*ind + '# ' + R.choice(['note','TODO: x','c c c'])
    if k==6: return ' '*ind + '#nospace'
    if k==7: return ' '*ind + '#'
    if k==8: return ' '*ind + '/* block */'
    return ' '*ind + '/** doc */'
def value(ind, depth):
    """returns text of value starting at current column (first line not indented), multi-line parts indented by ind"""
    k = R.randrange(10)
    if depth<=0 or k<4: return atom()
    if k<6: return mset(ind, depth-1)
    if k<8: return mlist(ind, depth-1)
    if k==8:
        if R.random()<0.5: return '{ %s = %s; }' % (ident(), atom())
        return R.choice(['rec ','']) + '{ %s = %s; %s_ = [ %s %s ]; }' % (ident(), atom(), ident(), atom(), atom())
    return '[ %s ]' % atom() if R.random()<0.5 else '[ ]' if R.random()<0.5 else '{ }'
def bindings(ind, depth, n):
    lines=[]
    names=set()
    for i in range(n):
        if i>0 and R.random()<0.2: lines.append('')
        if R.random()<0.25: lines.append(comment(ind))
        nm = ident()
        while nm in names: nm = nm+'_'
        if R.random()<0.1: nm = '"q %s"' % nm.replace("'", '')
        while nm in names: nm = nm[:-1]+'_"' if nm.endswith('"') else nm+'_'
        names.add(nm)
        names.add(nm)
        if R.random()<0.15:
            nm = nm + '.' + ident()
        l = ' '*ind + nm + ' = ' + value(ind, depth) + ';'
        if R.random()<0.2: l += ' # eol'
        lines.append(l)
    if R.random()<0.15: lines.append(comment(ind))
    return lines
def mset(ind, depth):
    n = R.randrange(1,4)
    if R.random()<0.08: return R.choice(['{\n\n' + ' '*ind + '}', '{\n' + comment(ind+2) + '\n' + ' '*ind + '}'])
    return R.choice(['','','','rec ']) + '{\n' + '\n'.join(bindings(ind+2, depth, n)) + '\n' + ' '*ind + '}'
def mlist(ind, depth):
    n = R.randrange(1,4)
    lines=[]
    for i in range(n):
        if i>0 and R.random()<0.15: lines.append('')
        if R.random()<0.2: lines.append(comment(ind+2))
        k=R.randrange(6)
        if depth>0 and k==0: v = mset(ind+2, depth-1)
        elif depth>0 and k==1: v = mlist(ind+2, depth-1)
        else: v = atom()
        l=' '*(ind+2)+v
        if R.random()<0.15: l += ' # eol'
        lines.append(l)
    return '[\n' + '\n'.join(lines) + '\n' + ' '*ind + ']'
def doc():
    s=''
    if R.random()<0.3: s += '# header\n' + ('\n' if R.random()<0.5 else '')
    s += mset(0, 3)
    k = R.randrange(6)
    if k==0: s += ' # eol at end\n'
    elif k==1: s += '\n# trailing\n'
    elif k==2: s += '\n\n# trailing after blank\n# more\n'
    elif k==3: s += ''
    else: s += '\n'
    return s
bad=0
N=int(sys.argv[2]) if len(sys.argv)>2 else 2000
for i in range(N):
    d = doc()
    src = parse(d)
    assert not src.contains_error, d
    r = src.rebuild()
    if r != d:
        bad+=1
        if bad<=5:
            print('--- MISMATCH'); print(d); print('--- got'); print(r)
print('bad', bad, 'of', N)

(* C13 — values built programmatically render to Nix that denotes the same value.
   Content (what is emitted: escaping, names, order, sign) over Dyn.DataRender with the GENERATED string escaper;
   integers by the standard decimal printer; layout stability is the business of C02/C06 and of the search. *)
From Coq Require Import List Ascii String Bool Arith ZArith.
Import ListNotations.
From Lex Require Import NixLex NixAttr.
From Small Require Import IntRender.
From Dyn Require Import Gen Refine DataRender.
Close Scope string_scope.

(* every value of the stated domain reads back, as Nix data, to exactly that value: string contents character for
   character, numbers with value and sign, element and key order *)
Theorem C13_roundtrip : forall v, in_domain v = true -> denote (of_py v) = Some v.
Proof. exact DataRender.C13_roundtrip. Qed.
Print Assumptions C13_roundtrip.

(* strings: whatever is written between the quotes is read back by Nix as the original string (no "${" inside) *)
Theorem C13_string : forall s, no_interp s = true -> nix_read (_escape_nix_string false s) = Some s.
Proof. intros s H. rewrite generated_escape_is_spec. apply read_escape_value, H. Qed.
Print Assumptions C13_string.

(* integers: the decimal printer is read back to the same integer, for every integer *)
Theorem C13_int : forall z : Z, read_int (render_int z) = Some z.
Proof. exact IntRender.C13_int. Qed.
Print Assumptions C13_int.

(* FULL statement over ALL nested values is REFUTED: a negative number directly inside a list is not an element *)
Theorem C13_negative_in_list_refuted : denote (of_py (PList [PInt (-1)])) = None.
Proof. exact DataRender.C13_negative_in_list_refuted. Qed.
Print Assumptions C13_negative_in_list_refuted.

(* non-vacuity: a nested value in the domain *)
Example C13_nonvacuous :
  in_domain (PDict [(c 97 :: nil, PList [PStr (c 36 :: c 34 :: c 92 :: nil); PInt 7; PNone]); (c 98 :: nil, PDict [(c 107 :: nil, PBool true)])]) = true.
Proof. vm_compute. reflexivity. Qed.
Print Assumptions C13_nonvacuous.

From Coq Require Import List Ascii String Bool Arith Lia.
Import ListNotations.
Open Scope char_scope.
Definition str := list ascii.
Definition s (x : string) : str := list_ascii_of_string x.
Definition nl : ascii := "010".
Definition sp (n : nat) : str := repeat " " n.

(* ---- trivia model (trivia.py) ---- *)
Inductive triv := EmptyLine | Linebreak | Cmt (text : str) (inline : bool).

Definition cmt_rebuild (indent : nat) (t : str) (inline : bool) : str :=
  (if inline then [] else sp indent) ++ "#" :: " " :: t.

Fixpoint format_trivia (l : list triv) (indent : nat) : str :=
  match l with
  | [] => []
  | EmptyLine :: r => nl :: format_trivia r indent
  | Linebreak :: r => format_trivia r indent
  | Cmt t i :: r => cmt_rebuild indent t i ++ nl :: format_trivia r indent
  end.

Definition is_layout (t : triv) := match t with Cmt _ _ => false | _ => true end.
Definition ends_nl (x : str) := match rev x with c :: _ => Ascii.eqb c nl | [] => false end.
Definition trim_trailing (l : list triv) (r : str) : str :=
  match rev l with
  | t :: _ => if negb (is_layout t) && ends_nl r then removelast r else r
  | [] => r
  end.
Definition nonempty_prefix_nl (x : str) : str := match x with [] => [] | _ => nl :: x end.
Definition apply_trailing (rebuilt : str) (after : list triv) (indent : nat) : str :=
  match after with
  | [] => rebuilt
  | Cmt t true :: r =>
      rebuilt ++ " " :: cmt_rebuild 0 t true ++ nonempty_prefix_nl (trim_trailing after (format_trivia r indent))
  | _ => rebuilt ++ nonempty_prefix_nl (trim_trailing after (format_trivia after indent))
  end.

(* ---- CST with gaps for a list of atoms/comments ---- *)
Inductive node := Atom (t : str) | LC (t : str).
Definition node_text (n : node) := match n with Atom t => t | LC t => "#" :: " " :: t end.

Fixpoint has_nl (g : str) : bool := match g with [] => false | c :: r => Ascii.eqb c nl || has_nl r end.
(* regex \n[ \t]*\n *)
Fixpoint blank_after (g : str) : bool := (* after a newline: skip [ \t]* then need \n *)
  match g with
  | [] => false
  | c :: r => if Ascii.eqb c nl then true else if Ascii.eqb c " " || Ascii.eqb c "009" then blank_after r else false
  end.
Fixpoint has_empty_line (g : str) : bool :=
  match g with [] => false | c :: r => (Ascii.eqb c nl && blank_after r) || has_empty_line r end.

Definition gap_trivia (g : str) : list triv :=
  if has_empty_line g then [EmptyLine] else if has_nl g then [Linebreak] else [].

Record item := { it_text : str; it_before : list triv; it_after : list triv }.

(* parse_delimited_sequence, specialised to list (process_list); content = (gap_before, node) list,
   gap_before of the first one is the gap after '['. *)
Fixpoint pds (content : list (str * node)) (first : bool) (prev_is_some : bool)
         (items : list item) (before : list triv) : list item * list triv :=
  match content with
  | [] => (items, before)
  | (g, LC t) :: rest =>
      let gt := if first then (if has_empty_line g then [EmptyLine] else []) else gap_trivia g in
      if prev_is_some && negb (has_nl g) && negb (match items with [] => true | _ => false end) then
        (* inline comment attaches to last item *)
        let before' := before ++ gt in
        let items' := match rev items with
                      | last :: r => rev r ++ [{| it_text := it_text last; it_before := it_before last;
                                                  it_after := it_after last ++ [Cmt t true] |}]
                      | [] => items end in
        pds rest false true items' before'
      else pds rest false true items (before ++ gt ++ [Cmt t false])
  | (g, Atom t) :: rest =>
      let gt := if first then (if has_empty_line g then [EmptyLine] else []) else gap_trivia g in
      pds rest false true (items ++ [{| it_text := t; it_before := before ++ gt; it_after := [] |}]) []
  end.

Definition list_from_cst (content : list (str * node)) (closing_gap : str) : list item * list triv :=
  let '(items, before) := pds content true false [] [] in
  let tail := before ++ (if has_empty_line closing_gap then [EmptyLine] else []) in
  match rev items with
  | last :: r => (rev r ++ [{| it_text := it_text last; it_before := it_before last; it_after := it_after last ++ tail |}], [])
  | [] => ([], tail)
  end.

Definition item_rebuild (indent : nat) (i : item) : str :=
  apply_trailing (format_trivia (it_before i) indent ++ sp indent ++ it_text i) (it_after i) indent.

Fixpoint join_nl (l : list str) : str :=
  match l with [] => [] | [x] => x | x :: r => x ++ nl :: join_nl r end.

Definition list_rebuild_multiline (indent : nat) (items : list item) : str :=
  let body := join_nl (map (item_rebuild (indent + 2)) items) in
  "[" :: nl :: body ++ (if ends_nl body then [] else [nl]) ++ sp indent ++ ["]"].

Definition cst_text (content : list (str * node)) (closing_gap : str) : str :=
  "[" :: flat_map (fun '(g, n) => g ++ node_text n) content ++ closing_gap ++ ["]"].

Definition ex1 := [ (s "
  ", Atom (s "a")); (s " ", LC (s "c")); (s "
  ", LC (s "own")); (s "

  ", Atom (s "b")) ]%string.
Eval vm_compute in string_of_list_ascii (cst_text ex1 (nl :: nil)).
Eval vm_compute in string_of_list_ascii (list_rebuild_multiline 0 (fst (list_from_cst ex1 [nl]))).

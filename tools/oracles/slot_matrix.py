"""Slot matrix (deterministic enumeration; labelled test, never a proof): every construct x every gap between two
adjacent tokens of that construct x every trivia kind x three nesting contexts.  Each cell is parsed and rebuilt by the
implementation and judged by the oracle of the requested property, stated over the tree-sitter token stream:
  C01  output parses (modulo the trailing formals comma) and has the same code tokens (integers modulo leading zeros)
  C03  same comments, same order, same side of every non-delimiter token, same wording modulo padding/indentation
  C06  (cells whose comment sits alone on a line / at the end of a line, and pure whitespace cells) output is a fixed point
  C18  spacing normal form of the output
usage: slot_matrix.py PROP  -> one JSON line {cells, failing: [[construct, slot, kind, context, detail]], ...}"""
import json, re, sys
from nixread import ts
from nix_manipulator import parse
prop = sys.argv[1]
from render_oracles import *
CONSTRUCTS = {
 'set_multi': "{\n  a = 1;\n  b = x;\n}", 'set_inline': "{ a = 1; }", 'rec_set': "rec {\n  a = 1;\n}", 'attrpath': "{\n  a.b.c = 1;\n}",
 'binding_nl': "{\n  a =\n    x;\n}", 'list_multi': "[\n  1\n  x\n]", 'list_inline': "[ 1 x ]", 'let': "let\n  a = 1;\nin\na",
 'lambda_id': "x: x", 'lambda_formals': "{ a, b ? 1, ... }: a", 'lambda_formals_multi': "{\n  a,\n  b ? 1,\n  ...\n}:\na",
 'lambda_at': "{ a }@args: a", 'lambda_at_pre': "args@{ a }: a", 'call': "f x y", 'call_set': "f {\n  a = 1;\n}", 'with': "with p; x",
 'assert': "assert c; x", 'if': "if c then t else e", 'select': "a.b.c", 'select_or': "a.b or d", 'has_attr': "a ? b", 'not': "!x", 'neg': "-x",
 'binary': "a + b", 'chain': "a\n++ b\n++ c", 'update': "a // b", 'paren': "(x)", 'inherit': "{\n  inherit a b;\n}",
 'inherit_from': "{\n  inherit (p) a b;\n}", 'string': "\"s${x}t\"",
}
KINDS = {
 'sp': ' ', 'sp2': '   ', 'tab': '\t', 'nl': '\n', 'nl_ind': '\n    ', 'blank': '\n\n', 'blank3': '\n\n\n  ',
 'eol_c': ' # c\n', 'own_c': '\n# c\n', 'own_c_blank': '\n\n# c\n\n', 'inl_b': ' /* c */ ', 'own_b': '\n/* c */\n',
 'ml_b': '\n/* a\n   b */\n', 'doc_b': '\n/** d */\n', 'hash_nospace': '\n#c\n',
 'eol_c_blank': ' # c\n\n', 'eol_b_blank': ' /* c */\n\n', 'own_c_two': '\n# c\n# d\n', 'blank_own_c': '\n\n# c\n', 'own_c_blank_after': '\n# c\n\n\n',
 'tight_b': '/* c */', 'tight_eol_c': '# c\n', 'tight_b_sp': '/* c */ ',
}
WS_KINDS = {'sp', 'sp2', 'tab', 'nl', 'nl_ind', 'blank', 'blank3'}
LINE_LEVEL = {'eol_c', 'own_c', 'own_c_blank', 'own_b', 'ml_b', 'doc_b', 'hash_nospace', 'eol_c_blank', 'eol_b_blank', 'own_c_two', 'blank_own_c', 'own_c_blank_after', 'tight_eol_c'}       # comment alone on a line or at the end of one
CONTEXTS = {'top': lambda e: e, 'bindval': lambda e: "{\n  v = " + e.replace("\n", "\n  ") + ";\n}", 'listitem': lambda e: "[\n  " + e.replace("\n", "\n  ") + "\n]"}
NOT_LIST_ITEMS = ('call', 'with', 'assert', 'if', 'lambda_id', 'lambda_formals', 'lambda_formals_multi', 'lambda_at', 'lambda_at_pre', 'let', 'binary', 'chain', 'update', 'has_attr', 'not', 'neg', 'select_or', 'call_set')
cells, failing, judged = 0, [], 0
for cname, expr in CONSTRUCTS.items():
    for ctx, wrap in CONTEXTS.items():
        if ctx == 'listitem' and cname in NOT_LIST_ITEMS: continue
        base = wrap(expr); toks, tail = lex(base)
        inner = lex(expr)[0]; n_in = len(inner)
        start = next(i for i in range(len(toks)) if [t[2] for t in toks[i:i + n_in]] == [t[2] for t in inner])
        for slot in range(start + 1, start + n_in):
            for kname, kval in KINDS.items():
                parts = []
                for i, (g, ty, tx) in enumerate(toks):
                    parts.append(kval if i == slot else g); parts.append(tx)
                p = ''.join(parts) + tail
                lp = lex(p)
                if lp is None or code(lp[0]) != code(toks): continue         # the perturbation changed the program: not a cell
                cells += 1
                site = [cname, '%s|%s' % (toks[slot - 1][2], toks[slot][2]), kname, ctx]
                try: r = parse(p).rebuild()
                except Exception as e:
                    if prop == 'C01': judged += 1; failing.append(site + ['parse/rebuild raises %s on valid input' % type(e).__name__, p, ''])
                    continue
                if prop == 'C01':
                    judged += 1; lr = lex(r, True)
                    if lr is None: failing.append(site + ['output does not parse', p, r])
                    elif code_nocomma(lr[0]) != code_nocomma(lp[0]): failing.append(site + ['code tokens changed', p, r])
                elif prop == 'C03':
                    if kname in WS_KINDS: continue
                    judged += 1; lr = lex(r, True)
                    if lr is None: continue                                   # judged by C01
                    if interleave(lr[0]) != interleave(lp[0]): failing.append(site + ['comment lost, duplicated, reworded or moved across a token', p, r])
                elif prop == 'C06':
                    if not (kname in WS_KINDS or kname in LINE_LEVEL): continue
                    judged += 1
                    try: r2 = parse(r).rebuild()
                    except Exception as e: failing.append(site + ['second pass raises %s' % type(e).__name__, p, r]); continue
                    if r2 != r: failing.append(site + ['rebuilt text is not a fixed point', p, r])
                elif prop == 'C18':
                    judged += 1; nf = nf_errors(r)
                    if nf and nf != ['output does not parse']: failing.append(site + ['not in spacing normal form: ' + ', '.join(sorted(set(nf))), p, r])
# ---- nesting family: every sequence of up to three wrappers around a leaf, each wrapper with names of its own depth ----
WRAP = {
 'let': lambda i, e: 'let\n  v%d = %d;\nin\n%s' % (i, i, e), 'lam': lambda i, e: 'x%d: %s' % (i, e), 'formals': lambda i, e: '{ p%d }: %s' % (i, e),
 'with': lambda i, e: 'with w%d; %s' % (i, e), 'assert': lambda i, e: 'assert c%d; %s' % (i, e), 'paren': lambda i, e: '(%s)' % e,
 'list': lambda i, e: '[\n  (%s)\n  %d\n]' % (e.replace('\n', '\n  '), i), 'bind': lambda i, e: '{\n  k%d = %s;\n}' % (i, e.replace('\n', '\n  ')),
 'if': lambda i, e: 'if b%d then %s else %d' % (i, e, i), 'call': lambda i, e: 'f%d (%s)' % (i, e), 'binop': lambda i, e: '(%s) + %d' % (e, i),
}
import itertools
for depth in (2, 3):
    for seq in itertools.product(sorted(WRAP), repeat=depth):
        e = 'leaf'
        for i, w in enumerate(reversed(seq)): e = WRAP[w](depth - i, e)
        p = e + '\n'
        lp = lex(p)
        if lp is None: continue
        cells += 1; site = ['nest', '>'.join(seq), 'canonical', 'top']
        try: r = parse(p).rebuild()
        except Exception as ex:
            if prop == 'C01': judged += 1; failing.append(site + ['parse/rebuild raises %s on valid input' % type(ex).__name__, p, ''])
            continue
        if prop == 'C03': continue
        judged += 1
        v = judge(prop, p, r, lambda t: parse(t).rebuild())
        if v: failing.append(site + [v, p, r])
print(json.dumps({'cells': cells, 'judged': judged, 'failing': failing}))

(* C20 — parse and rebuild terminate quickly and fail only in documented ways (cost half).
   Cost is the deterministic number of rebuild invocations (never wall-clock time).  Small/CostFam.v gives the
   recurrence of every nesting family; the cost correspondence checks the counts against the implementation on every
   run.  Families that render their child once are linear; the families that render it twice are exponential, which
   REFUTES the polynomial clause of the property for the code as it is (finding F-19). *)
From Coq Require Import List Arith Lia String.
Import ListNotations.
From Small Require Import Cost CostFam.

(* linear families: one rebuild of the child per level *)
Theorem C20_linear_families : forall f c0 n, mult f = 1 -> first_mult f = 1 -> cost f c0 n <= c0 + n * (first_own f + own f).
Proof. exact linear_family. Qed.
Print Assumptions C20_linear_families.

(* doubling families: the count at depth n+1 is at least 2^n *)
Theorem C20_doubling_families : forall f c0 n, mult f = 2 -> 1 <= cost f c0 1 -> 2 ^ n <= cost f c0 (S n).
Proof. exact doubling_family. Qed.
Print Assumptions C20_doubling_families.

(* FULL polynomial clause REFUTED: for curried lambdas the count exceeds c * (n+1)^k for every degree k and constant c *)
Theorem C20_poly_full_refuted : forall k c, exists n, c * (S n) ^ k < cost (F 2 2 2 2) 1 n.
Proof. exact lam_family_not_polynomial. Qed.
Print Assumptions C20_poly_full_refuted.

(* the exponential families of the table are exactly these ten *)
Example C20_doubling_table : map (fun r => fst (fst r)) (filter doubling table) = ["with"; "lam"; "formals"; "inherit"; "concat_nl"; "concat_chain_r"; "update_chain_r"; "impl_chain_r"; "lam_nl"; "with_nl"]%string.
Proof. exact doubling_families. Qed.
Print Assumptions C20_doubling_table.

(* the generated scanning loops of the string functions advance on every path (their fuel is never exhausted):
   stated and checked with the translator, see C12; here the closed form for the abstract expression model *)
Theorem C20_wrap_exact : forall n, calls (nest Wrap n) = size (nest Wrap n).
Proof. exact C20_linear_wrap. Qed.
Print Assumptions C20_wrap_exact.

(* the regenerated wrapper traversal (tools/target2v.py) terminates on every document: over finitely many nodes a fuel above their number is never
   exhausted, whatever the identifier references do (cycles included) — the outcome is a set, ValueError or the resolver's exception *)
From Dyn Require Import TargetGen TargetProps.
Close Scope string_scope. Open Scope list_scope.
Theorem C20_target_total : forall (w : world) (univ : list (wN w)),
  (forall n, In n univ) -> forall t sc st, exists r s', r <> RFuel /\ target w (S (List.length univ)) t sc ([], st) = (r, s').
Proof. exact target_total. Qed.
Print Assumptions C20_target_total.
(* and the outcome does not depend on how much fuel a caller supplies above what was needed *)
Theorem C20_target_fuel_independent : forall (w : world) fuel k t sc s r s',
  target w fuel t sc s = (r, s') -> r <> RFuel -> target w (k + fuel) t sc s = (r, s').
Proof. exact target_result_fuel_independent. Qed.
Print Assumptions C20_target_fuel_independent.

"""Canonical (RFC-0166 style) package-file idiom generator; checks parse(d).rebuild()==d."""
import sys, random, collections
sys.path.insert(0,'/repo')
from nix_manipulator import parse
from nix_manipulator.parser import parse_to_ast
R = random.Random(int(sys.argv[1])); N=int(sys.argv[2])
IDS=['lib','stdenv','fetchurl','pkgs','python3','openssl','zlib','cmake','version','pname','src','meta','hash','url']
def ident(): return R.choice(IDS)
def s(n): return ' '*n
def atom():
    return R.choice([lambda: '"%s"'%R.choice(['1.2.3','demo','sha256-AAAA=','https://x/${pname}-${version}.tar.gz']),
                     lambda: str(R.randrange(100)), ident, lambda: 'true', lambda:'false', lambda:'null',
                     lambda: 'lib.'+R.choice(['licenses.mit','platforms.unix','maintainers.hoh']), lambda: './patches/fix.patch',
                     lambda: 'pkgs.%s.%s'%(ident(),ident())])()
def comment(ind): return s(ind)+'# '+R.choice(['note','TODO: bump','see upstream'])
def simple_list(ind):
    n=R.randrange(0,4)
    if n==0: return '[ ]'
    if n==1 and R.random()<0.6: return '[ %s ]'%atom()
    lines=[]
    for i in range(n):
        if R.random()<0.15: lines.append(comment(ind+2))
        l=s(ind+2)+atom()
        if R.random()<0.1: l+=' # why'
        lines.append(l)
    return '[\n'+'\n'.join(lines)+'\n'+s(ind)+']'
def istring(ind):
    return "''\n"+s(ind+2)+"echo hi\n"+s(ind+2)+"make ${lib.concatStringsSep \" \" flags}\n"+s(ind)+"''"
def value(ind, depth):
    k=R.randrange(14)
    if depth<=0 or k<4: return atom()
    if k<6: return simple_list(ind)
    if k==6: return istring(ind)
    if k==7: return 'with lib; ' + simple_list(ind)
    if k==8: return 'with lib; ' + mset(ind, depth-1, max_n=3)
    if k==9: return 'if %s then %s else %s'%(ident(), atom(), atom())
    if k==10: return '%s {\n%s\n%s}'%(R.choice(['fetchurl','fetchFromGitHub','lib.mkIf cond']), '\n'.join(bindings(ind+2, depth-1, R.randrange(1,4))), s(ind))
    if k==11: return mset(ind, depth-1)
    if k==12: return '%s %s'%(ident(), atom())
    return '{ %s = %s; }'%(ident(), atom())
def bindings(ind, depth, n, allow_inherit=True):
    lines=[]; names=set()
    for i in range(n):
        if i>0 and R.random()<0.25: lines.append('')
        if R.random()<0.2: lines.append(comment(ind))
        if allow_inherit and R.random()<0.15:
            if R.random()<0.5: lines.append(s(ind)+'inherit %s;'%' '.join(R.sample(IDS, R.randrange(1,4))))
            else: lines.append(s(ind)+'inherit (%s) %s;'%(ident(), ' '.join(R.sample(IDS, R.randrange(1,3)))))
            continue
        nm=ident()
        while nm in names: nm+='_'
        names.add(nm)
        if R.random()<0.12: nm+= '.'+R.choice(['a','b','c'])
        l=s(ind)+nm+' = '+value(ind,depth)+';'
        if R.random()<0.12: l+=' # eol'
        lines.append(l)
    return lines
def mset(ind, depth, max_n=5):
    return R.choice(['','','','rec '])+'{\n'+'\n'.join(bindings(ind+2, depth, R.randrange(1,max_n)))+'\n'+s(ind)+'}'
def formals():
    names=R.sample(IDS, R.randrange(1,6))
    k=R.randrange(4)
    if k==0 and len(names)<=2:  # inline
        return '{ '+', '.join(names)+(', ...' if R.random()<0.4 else '')+' }:'
    # multi-line, must end with ... to stay parseable by the installed grammar (no trailing comma)
    items=[]
    for n in names:
        it = n + (' ? '+R.choice(['null','false','"x"','{ }','[ ]']) if R.random()<0.25 else '')
        items.append('  '+it+',')
    items.append('  ...')
    head='{\n'+'\n'.join(items)+'\n}'
    if R.random()<0.15: head += '@args'
    return head+':'
def doc():
    out=''
    if R.random()<0.3: out+='# SPDX header\n'+('\n' if R.random()<0.6 else '')
    k=R.randrange(5)
    body_call = R.choice(['stdenv.mkDerivation','python3.pkgs.buildPythonPackage','mkShell'])
    rec = R.choice(['',' rec'])
    main = body_call+rec+' {\n'+'\n'.join(bindings(2,2,R.randrange(2,7)))+'\n}'
    if k==0: out+=main
    else:
        out+=formals()+'\n'
        if k>=3:
            out+='\nlet\n'+'\n'.join(bindings(2,1,R.randrange(1,4)))+'\nin\n' if R.random()<0.7 else 'let\n'+'\n'.join(bindings(2,1,R.randrange(1,4)))+'\nin\n'
        if k==2: out+='\n'
        if k==4 and R.random()<0.4: out+='assert %s != null;\n'%ident()
        out+=main
    return out+'\n'
bad=collections.Counter(); n_err=0; shown=0
for i in range(N):
    d=doc()
    if parse_to_ast(d).has_error:
        n_err+=1
        if n_err<=2: print('GEN-INVALID', d)
        continue
    try: r=parse(d).rebuild()
    except Exception as e:
        bad['EXC '+type(e).__name__]+=1; continue
    if r!=d:
        # locate first differing line
        dl=d.split('\n'); rl=r.split('\n'); j=0
        while j<min(len(dl),len(rl)) and dl[j]==rl[j]: j+=1
        key = (dl[j].strip()[:30] if j<len(dl) else '<eof>')
        bad['diff']+=1
        if shown<6:
            shown+=1; print('--- MISMATCH at line',j); print('\n'.join(dl[max(0,j-3):j+4])); print('--- got'); print('\n'.join(rl[max(0,j-3):j+4]))
print('invalid-generated', n_err, dict(bad), 'of', N)
